// Package rtoverlay generates patched copies of a few Go runtime source files
// (go1.26.8) that make the scheduler's random choices come from one seeded
// stream, and returns `go build -overlay` entries for them. Every pattern must
// occur exactly the stated number of times; otherwise the toolchain is not the
// expected one and generation fails (the caller exits 2).
package rtoverlay

import (
	"fmt"
	"os"
	"path/filepath"
	"strings"
)

type sub struct {
	old, new string
	n        int
}

const randAdd = `func maps_rand() uint64 {
	return verifSimNext()
}

var verifSimState uint64 = 0x1234567

// VerifSimSeed reseeds the deterministic stream used for map seeds, map
// iteration offsets, select poll order, fake-timer tie order and run-queue
// placement.
func VerifSimSeed(seed uint64) { atomic.Store64(&verifSimState, seed) }

//go:nosplit
func verifSimNext() uint64 {
	z := atomic.Xadd64(&verifSimState, -0x61c8864680b583eb)
	z = (z ^ (z >> 30)) * 0xbf58476d1ce4e5b9
	z = (z ^ (z >> 27)) * 0x94d049bb133111eb
	return z ^ (z >> 31)
}

var verifSimSched uint32

// VerifSimSched sets the probability (x/256) that a readied goroutine is
// queued at the tail instead of taking the runnext slot.
func VerifSimSched(x uint32) { atomic.Store(&verifSimSched, x) }

func verifSimSchedSkip() bool {
	x := atomic.Load(&verifSimSched)
	return x != 0 && verifSimRandn(256) < x
}

var verifSpin, verifSpinBreaks uint64

// VerifSpinReset is called by the simulation driver at every step.
func VerifSpinReset() uint64 { verifSpin = 0; return verifSpinBreaks }

var verifYieldProb uint32
var verifTrace uint64
var verifYields uint64

// VerifSimYieldProb sets the probability (x/65536) that an instrumented
// synchronisation point yields the processor.
func VerifSimYieldProb(x uint32) { atomic.Store(&verifYieldProb, x) }

// VerifTrace returns a hash of the (goroutine, site) sequence seen at
// instrumented points and the number of yields taken.
func VerifTrace() (uint64, uint64) { return verifTrace, verifYields }

// VerifYield is called by instrumented code before synchronisation operations.
func VerifYield(site uint32) {
	x := atomic.Load(&verifYieldProb)
	if x == 0 {
		return
	}
	gp := getg()
	verifTrace = (verifTrace ^ uint64(site)) * 0x100000001b3
	if verifSpin++; verifSpin > 200000 && gp.bubble != nil {
		// Busy loop in the system under test: the bubble never becomes
		// idle, so the simulated clock (and the driver) cannot advance.
		// Spinning takes time in reality; make it take simulated time.
		verifSpinBreaks++
		timeSleep(1000)
		return
	}
	if verifSimRandn(65536) < x {
		verifYields++
		Gosched()
	}
}

func verifSimRandn(n uint32) uint32 {
	return uint32((uint64(uint32(verifSimNext())) * uint64(n)) >> 32)
}`

var patches = map[string][]sub{
	"runtime/rand.go": {
		{"\tseed := &globalRand.seed\n\tif len(startupRand) >= 16 &&",
			"\tseed := &globalRand.seed\n\tif true {\n\t\tfor i := range seed {\n\t\t\tseed[i] = byte(i*37 + 11)\n\t\t}\n\t} else if len(startupRand) >= 16 &&", 1},
		{"func maps_rand() uint64 {\n\treturn rand()\n}", randAdd, 1},
		{"\"internal/runtime/math\"\n", "\"internal/runtime/atomic\"\n\t\"internal/runtime/math\"\n", 1},
	},
	"runtime/select.go": {
		{"j := cheaprandn(uint32(norder + 1))", "j := verifSimRandn(uint32(norder + 1))", 1},
	},
	"runtime/time.go": {
		{"t.rand = cheaprand()", "t.rand = uint32(verifSimNext())", 1},
	},
	"runtime/proc.go": {
		{"const forcePreemptNS = 10 * 1000 * 1000 // 10ms", "const forcePreemptNS = 1 << 60 // verif: no time-slice preemption", 1},
		{"if randomizeScheduler && next && randn(2) == 0 {", "if next && verifSimSchedSkip() {", 1},
		{"j := cheaprandn(i + 1)", "j := verifSimRandn(i + 1)", 2},
		// never retake a P from a goroutine in a system call: a hand-off
		// creates a new thread at a load-dependent moment, and the thread's
		// stacks come from the Go heap, shifting every later address (and
		// with it the iteration order of pointer-keyed maps).
		{"if syst := int64(pp.syscalltick); !sysretake && int64(pd.syscalltick) != syst {", "if syst := int64(pp.syscalltick); true || (!sysretake && int64(pd.syscalltick) != syst) {", 1},
	},
}

// Generate writes patched runtime files under outDir and returns overlay
// entries (original path -> patched path).
func Generate(goroot, outDir string) (map[string]string, error) {
	if err := os.MkdirAll(outDir, 0o755); err != nil {
		return nil, err
	}
	ov := map[string]string{}
	for rel, subs := range patches {
		p := filepath.Join(goroot, "src", rel)
		b, err := os.ReadFile(p)
		if err != nil {
			return nil, err
		}
		s := string(b)
		for _, sb := range subs {
			if c := strings.Count(s, sb.old); c != sb.n {
				return nil, fmt.Errorf("rtoverlay: %s: pattern %q occurs %d times, want %d (unexpected toolchain)", rel, sb.old, c, sb.n)
			}
			s = strings.ReplaceAll(s, sb.old, sb.new)
		}
		q := filepath.Join(outDir, strings.ReplaceAll(rel, "/", "_"))
		if err := os.WriteFile(q, []byte(s), 0o644); err != nil {
			return nil, err
		}
		ov[p] = q
	}
	return ov, nil
}
