// Package rtoverlay generates patched copies of a few Go runtime source files
// (go1.26.8) that make the scheduler's random choices come from one seeded
// stream, and returns `go build -overlay` entries for them. Every pattern must
// occur exactly the stated number of times; otherwise the toolchain is not the
// expected one and generation fails (the caller exits 2).
package rtoverlay

import (
	"fmt"
	"os"
	"path/filepath"
	"strings"
)

type sub struct {
	old, new string
	n        int
}

const randAdd = `func maps_rand() uint64 {
	return verifSimNext()
}

var verifSimState uint64 = 0x1234567

// VerifSimSeed reseeds the deterministic stream used for map seeds, map
// iteration offsets, select poll order, fake-timer tie order and run-queue
// placement.
func VerifSimSeed(seed uint64) { atomic.Store64(&verifSimState, seed) }

//go:nosplit
func verifSimNext() uint64 {
	verifDraws++
	z := atomic.Xadd64(&verifSimState, -0x61c8864680b583eb)
	z = (z ^ (z >> 30)) * 0xbf58476d1ce4e5b9
	z = (z ^ (z >> 27)) * 0x94d049bb133111eb
	verifEvAdd(4, verifDraws)
	return z ^ (z >> 31)
}

var verifDraws uint64

// diagnostic event log (off unless VerifEvLogOn): yield sites passed, run-queue
// and select draws, in order, with the goroutine id; static storage so that
// recording does not allocate
var verifEvOn bool
var verifEvN uint32
var verifEv [1 << 22]uint64

func VerifEvLogOn()        { verifEvOn = true; verifEvN = 0 }
func VerifEvLog() []uint64 { return verifEv[:verifEvN] }

//go:nosplit
func verifEvAdd(kind, v uint64) {
	if verifEvOn && verifEvN < uint32(len(verifEv)) {
		var id uint64
		if cg := getg().m.curg; cg != nil {
			id = cg.goid
		}
		verifEv[verifEvN] = kind<<56 | (id&0xffffff)<<32 | v&0xffffffff
		verifEvN++
	}
}

// VerifDraws returns the number of draws taken from the seeded stream and the
// current yield-trace hash (diagnostics: localising a same-seed divergence).
func VerifDraws() (uint64, uint64) { return verifDraws, verifTrace }

var verifSimSched uint32

// VerifSimSched sets the probability (x/256) that a readied goroutine is
// queued at the tail instead of taking the runnext slot.
func VerifSimSched(x uint32) { atomic.Store(&verifSimSched, x) }

func verifSimSchedSkip() bool {
	x := atomic.Load(&verifSimSched)
	return x != 0 && verifSimRandn(256) < x
}

func verifSimSelect(n uint32) uint32 {
	verifEvAdd(3, uint64(n))
	return verifSimRandn(n)
}

var verifSpin, verifSpinBreaks uint64

// VerifSpinReset is called by the simulation driver at every step.
func VerifSpinReset() uint64 { verifSpin = 0; return verifSpinBreaks }

// VerifSpinBreaks returns how often the spin guard made a busy loop sleep.
func VerifSpinBreaks() uint64 { return verifSpinBreaks }

var verifYieldProb uint32
var verifTrace uint64
var verifYields uint64

// VerifSimYieldProb sets the probability (x/65536) that an instrumented
// synchronisation point yields the processor.
func VerifSimYieldProb(x uint32) { atomic.Store(&verifYieldProb, x) }

// VerifTrace returns a hash of the (goroutine, site) sequence seen at
// instrumented points and the number of yields taken.
func VerifTrace() (uint64, uint64) { return verifTrace, verifYields }

// VerifYield is called by instrumented code before synchronisation operations.
func VerifYield(site uint32) {
	x := atomic.Load(&verifYieldProb)
	gp := getg()
	if x == 0 {
		// no seeded yields in this run: the spin guard still has to work
		// (a busy loop in the code under test would otherwise never let the
		// simulated clock advance)
		if gp.bubble != nil {
			if verifSpin++; verifSpin > 200000 {
				verifSpinBreaks++
				sh := (verifSpin - 200000) / 512
				if sh > 10 {
					sh = 10
				}
				timeSleep(1000 << sh)
			}
		}
		return
	}
	verifTrace = (verifTrace ^ uint64(site)) * 0x100000001b3
	verifEvAdd(1, uint64(site))
	if verifSpin++; verifSpin > 200000 && gp.bubble != nil {
		// Busy loop in the system under test: the bubble never becomes
		// idle, so the simulated clock (and the driver) cannot advance.
		// Spinning takes time in reality; make it take simulated time.
		verifSpinBreaks++
		// the longer the spin lasts without a driver step, the longer each
		// break sleeps (1us doubling every 512 breaks up to ~1ms), so a
		// loop spinning towards an event 300 simulated ms away gets there
		// in thousands of breaks rather than hundreds of thousands
		sh := (verifSpin - 200000) / 512
		if sh > 10 {
			sh = 10
		}
		timeSleep(1000 << sh)
		return
	}
	if verifSimRandn(65536) < x {
		verifYields++
		Gosched()
	}
}

// readies of goroutines outside any bubble (runtime helpers, the test's
// main goroutine): their timing is not under the simulator's control
var verifNBReady, verifNBHash uint64
var verifNBPCs [8]uintptr

func VerifNonBubble() (uint64, uint64, [8]uintptr) { return verifNBReady, verifNBHash, verifNBPCs }
func VerifNonBubbleReset()                         { verifNBReady, verifNBHash = 0, 0 }

func verifSimRandn(n uint32) uint32 {
	return uint32((uint64(uint32(verifSimNext())) * uint64(n)) >> 32)
}`

var patches = map[string][]sub{
	"runtime/rand.go": {
		{"\tseed := &globalRand.seed\n\tif len(startupRand) >= 16 &&",
			"\tseed := &globalRand.seed\n\tif true {\n\t\tfor i := range seed {\n\t\t\tseed[i] = byte(i*37 + 11)\n\t\t}\n\t} else if len(startupRand) >= 16 &&", 1},
		{"func maps_rand() uint64 {\n\treturn rand()\n}", randAdd, 1},
		{"\"internal/runtime/math\"\n", "\"internal/runtime/atomic\"\n\t\"internal/runtime/math\"\n", 1},
	},
	"runtime/sema.go": {
		// sync.Mutex decides about starvation mode (direct hand-off to the
		// oldest waiter, which reorders the run queue) from how long a
		// waiter has waited in REAL time (> 1 ms): a wall-clock leak that
		// flips schedules on a loaded machine. Inside a bubble the mutex
		// reads the bubble's clock instead.
		{"func internal_sync_nanotime() int64 {\n\treturn nanotime()\n}", "func internal_sync_nanotime() int64 {\n\tif b := getg().bubble; b != nil {\n\t\treturn b.now\n\t}\n\treturn nanotime()\n}", 1},
	},
	"runtime/mheap.go": {
		// diagnostics only (event log): which spans are handed out, in order
		{"\t\ts = h.allocSpan(npages, spanAllocHeap, spanclass)\n", "\t\ts = h.allocSpan(npages, spanAllocHeap, spanclass)\n\t\tif s != nil {\n\t\t\tverifEvAdd(5, uint64(s.base()>>13)^uint64(spanclass)<<28)\n\t\t}\n", 1},
		{"\treturn h.allocSpan(npages, typ, 0)\n", "\tms := h.allocSpan(npages, typ, 0)\n\tif ms != nil {\n\t\tverifEvAdd(6, uint64(ms.base()>>13))\n\t}\n\treturn ms\n", 1},
	},
	"runtime/select.go": {
		{"j := cheaprandn(uint32(norder + 1))", "j := verifSimSelect(uint32(norder + 1))", 1},
	},
	"runtime/time.go": {
		{"t.rand = cheaprand()", "t.rand = uint32(verifSimNext())", 1},
	},
	"runtime/proc.go": {
		{"const forcePreemptNS = 10 * 1000 * 1000 // 10ms", "const forcePreemptNS = 1 << 60 // verif: no time-slice preemption", 1},
		{"if randomizeScheduler && next && randn(2) == 0 {", "if gp.bubble == nil {\n\t\tverifNBReady++\n\t\tverifNBHash = (verifNBHash ^ uint64(gp.startpc)) * 0x100000001b3\n\t\tif verifNBReady <= 8 {\n\t\t\tverifNBPCs[verifNBReady-1] = gp.startpc\n\t\t}\n\t}\n\tverifEvAdd(2, uint64(gp.goid))\n\tif next && verifSimSchedSkip() {", 1},
		{"j := cheaprandn(i + 1)", "j := verifSimRandn(i + 1)", 2},
		// never retake a P from a goroutine in a system call: a hand-off
		// creates a new thread at a load-dependent moment, and the thread's
		// stacks come from the Go heap, shifting every later address (and
		// with it the iteration order of pointer-keyed maps).
		{"if syst := int64(pp.syscalltick); !sysretake && int64(pd.syscalltick) != syst {", "if syst := int64(pp.syscalltick); true || (!sysretake && int64(pd.syscalltick) != syst) {", 1},
	},
}

// Generate writes patched runtime files under outDir and returns overlay
// entries (original path -> patched path).
func Generate(goroot, outDir string) (map[string]string, error) {
	if err := os.MkdirAll(outDir, 0o755); err != nil {
		return nil, err
	}
	ov := map[string]string{}
	for rel, subs := range patches {
		p := filepath.Join(goroot, "src", rel)
		b, err := os.ReadFile(p)
		if err != nil {
			return nil, err
		}
		s := string(b)
		for _, sb := range subs {
			if c := strings.Count(s, sb.old); c != sb.n {
				return nil, fmt.Errorf("rtoverlay: %s: pattern %q occurs %d times, want %d (unexpected toolchain)", rel, sb.old, c, sb.n)
			}
			s = strings.ReplaceAll(s, sb.old, sb.new)
		}
		q := filepath.Join(outDir, strings.ReplaceAll(rel, "/", "_"))
		if err := os.WriteFile(q, []byte(s), 0o644); err != nil {
			return nil, err
		}
		ov[p] = q
	}
	return ov, nil
}
