// Package yieldgen inserts verifrt.VerifYield(site) before statements that
// contain a synchronisation operation. Edits are textual at statement start
// offsets so line numbers are preserved. Matching is syntactic and
// over-approximate on purpose: a yield is semantically a no-op.
package yieldgen

import (
	"fmt"
	"go/ast"
	"go/parser"
	"go/token"
	"os"
	"path/filepath"
	"sort"
	"strings"
)

var syncMethods = map[string]bool{
	"Lock": true, "RLock": true, "TryLock": true, "TryRLock": true, "Unlock": true, "RUnlock": true,
	"Wait": true, "Signal": true, "Broadcast": true,
	"Load": true, "Store": true, "Swap": true, "CompareAndSwap": true, "Add": true, "And": true, "Or": true,
	"Do": true,
}

func hasSyncOp(n ast.Node) bool {
	found := false
	ast.Inspect(n, func(c ast.Node) bool {
		if found || c == nil {
			return false
		}
		switch x := c.(type) {
		case *ast.FuncLit:
			return false
		case *ast.BlockStmt:
			if c != n {
				return false
			}
		case *ast.SendStmt:
			found = true
		case *ast.UnaryExpr:
			if x.Op == token.ARROW {
				found = true
			}
		case *ast.SelectStmt:
			found = true
			return false
		case *ast.GoStmt:
			found = true
			return false
		case *ast.CallExpr:
			switch f := x.Fun.(type) {
			case *ast.SelectorExpr:
				if syncMethods[f.Sel.Name] {
					found = true
				}
				if id, ok := f.X.(*ast.Ident); ok && id.Name == "atomic" {
					found = true
				}
			case *ast.Ident:
				if f.Name == "close" {
					found = true
				}
			}
		}
		return true
	})
	return found
}

// Generate instruments every non-test .go file of srcDir that compiles under
// the given tags (files with a //go:build line are kept only if keep(name,
// constraintLine) says so), writes copies into outDir and returns overlay
// entries plus the site table. siteBase offsets site numbers.
func Generate(srcDir, outDir string, siteBase int) (map[string]string, []string, error) {
	if err := os.MkdirAll(outDir, 0o755); err != nil {
		return nil, nil, err
	}
	ents, err := os.ReadDir(srcDir)
	if err != nil {
		return nil, nil, err
	}
	overlay := map[string]string{}
	var sites []string
	for _, e := range ents {
		name := e.Name()
		if !strings.HasSuffix(name, ".go") || strings.HasSuffix(name, "_test.go") {
			continue
		}
		path := filepath.Join(srcDir, name)
		src, err := os.ReadFile(path)
		if err != nil {
			return nil, nil, err
		}
		fset := token.NewFileSet()
		f, err := parser.ParseFile(fset, path, src, parser.ParseComments)
		if err != nil {
			return nil, nil, fmt.Errorf("yieldgen: %v", err)
		}
		var offs []int
		visitList := func(list []ast.Stmt) {
			for _, s := range list {
				switch s.(type) {
				case *ast.DeclStmt, *ast.CaseClause, *ast.CommClause:
					continue
				}
				if hasSyncOp(s) {
					offs = append(offs, fset.Position(s.Pos()).Offset)
				}
			}
		}
		ast.Inspect(f, func(n ast.Node) bool {
			switch x := n.(type) {
			case *ast.BlockStmt:
				visitList(x.List)
			case *ast.CaseClause:
				visitList(x.Body)
			case *ast.CommClause:
				visitList(x.Body)
			}
			return true
		})
		if len(offs) == 0 {
			continue
		}
		sort.Ints(offs)
		out := make([]byte, 0, len(src)+len(offs)*32)
		prev := 0
		for _, o := range offs {
			out = append(out, src[prev:o]...)
			site := siteBase + len(sites)
			sites = append(sites, fmt.Sprintf("%s:%d", name, 1+strings.Count(string(src[:o]), "\n")))
			out = append(out, fmt.Sprintf("verifrt.VerifYield(%d); ", site)...)
			prev = o
		}
		out = append(out, src[prev:]...)
		marker := "package " + f.Name.Name
		// the package clause: first occurrence at a line start after comments.
		idx := fset.Position(f.Package).Offset
		if !strings.HasPrefix(string(out[idx:]), marker) {
			return nil, nil, fmt.Errorf("yieldgen: %s: package clause not found at offset", name)
		}
		out = []byte(string(out[:idx+len(marker)]) + `; import verifrt "runtime"` + string(out[idx+len(marker):]))
		dst := filepath.Join(outDir, filepath.Base(srcDir)+"_"+name)
		if err := os.WriteFile(dst, out, 0o644); err != nil {
			return nil, nil, err
		}
		overlay[path] = dst
	}
	return overlay, sites, nil
}
