package sim

import (
	"bytes"
	"fmt"
	"runtime"
	"sort"
	"strings"
	"sync"

	"github.com/twmb/franz-go/pkg/kmsg"
)

// produceWire checks every Produce request that reaches a broker (C18) and
// keeps wire-level facts other oracles use.
type produceWire struct {
	s  *Sim
	st *prodState
	// (pid,epoch,topic,part) -> baseSeq -> values
	seqs    map[string]map[int32][]string
	mu      sync.Mutex
	pending map[string]*sentBatch // conn/corr/tp -> batch awaiting the broker's verdict
	// decoded records to compare against the history at the end
	seen       []wireRec
	model      map[string]*seqState      // pid/topic/part -> reference sequence state (C29)
	unobserved map[string]bool           // pid/topic/part whose model may lag (verdicts lost with a connection)
	cliEnds    map[string]map[int32]bool // pid/epoch/topic/part -> sequences at which a written batch ended
	cliDesc    map[string]string
	cliSeen    map[string]map[int32]bool
	nreq       int
	maxFrame   int
	maxBatch   int
}

type sentBatch struct {
	key, tp string
	pid     int64
	epoch   int16
	seq     int32
	vals    []string
	conn    *Conn // the connection that carried it to the broker
}

type wireRec struct {
	val   string
	key   []byte
	ts    int64
	topic string
	part  int32
}

func newProduceWire(s *Sim, st *prodState) *produceWire {
	return &produceWire{s: s, st: st, seqs: map[string]map[int32][]string{}, pending: map[string]*sentBatch{}, model: map[string]*seqState{}, unobserved: map[string]bool{}, cliEnds: map[string]map[int32]bool{}, cliSeen: map[string]map[int32]bool{}, cliDesc: map[string]string{}}
}

func (w *produceWire) onReq(r *WireReq) {
	if r.Key != 0 || !strings.HasPrefix(r.Conn.Client, "p") {
		return
	}
	s := w.s
	w.nreq++
	if r.Req == nil {
		s.Violf("C18/decode/request", "produce request v%d on %s does not decode with the generated codec", r.Ver, r.Conn.Name)
		return
	}
	req := r.Req.(*kmsg.ProduceRequest)
	maxWrite := s.P.Knob("max_write_bytes", 100<<20)
	maxBatch := s.P.Knob("batch_max_bytes", 1000012)
	if len(r.Raw) > w.maxFrame {
		w.maxFrame = len(r.Raw)
	}
	if int64(len(r.Raw)) > maxWrite {
		desc := ""
		for _, t := range req.Topics {
			for _, p := range t.Partitions {
				desc += fmt.Sprintf(" %s/%d:%dB", s.reqTopic(t.Topic, t.TopicID), p.Partition, len(p.Records))
			}
		}
		s.Violf("C18/limit/request-size", "produce request v%d of %d bytes exceeds BrokerMaxWriteBytes=%d (client id %q, batches:%s)", r.Ver, len(r.Raw), maxWrite, r.ClientID, desc)
	}
	seenTP := map[string]bool{}
	for _, t := range req.Topics {
		topic := s.reqTopic(t.Topic, t.TopicID)
		for _, p := range t.Partitions {
			tp := fmt.Sprintf("%s/%d", topic, p.Partition)
			if seenTP[tp] {
				s.Violf("C18/shape/partition-twice", "partition %s appears twice in one produce request", tp)
			}
			seenTP[tp] = true
			if len(p.Records) == 0 {
				// the client blanks a partition whose batch was failed
				// after the request was built; nothing is written for it
				s.Probe("produce_partition_blanked")
				continue
			}
			bs, err := RefDecodeBatches(p.Records)
			if err != nil {
				s.Violf("C18/decode/batch", "records for %s do not decode: %v", tp, err)
				continue
			}
			total := 0
			for _, b := range bs {
				total += b.RawLen
			}
			if len(bs) != 1 || total != len(p.Records) {
				s.Violf("C18/shape/batch-count", "records for %s hold %d batches (%d of %d bytes)", tp, len(bs), total, len(p.Records))
				continue
			}
			b := bs[0]
			if b.RawLen > w.maxBatch {
				w.maxBatch = b.RawLen
			}
			if int64(b.RawLen) > maxBatch {
				s.Violf("C18/limit/batch-size", "batch for %s is %d bytes, ProducerBatchMaxBytes=%d (records=%d)", tp, b.RawLen, maxBatch, b.NumRecords)
			}
			if !b.CRCOk {
				s.Violf("C18/batch/crc", "batch for %s has a wrong CRC", tp)
			}
			if b.BaseOffset != 0 || int(b.NumRecords) != len(b.Records) || int(b.LastOffsetDelta) != len(b.Records)-1 || len(b.Records) == 0 {
				s.Violf("C18/batch/counts", "batch for %s: base=%d numRecords=%d lastOffsetDelta=%d decoded=%d", tp, b.BaseOffset, b.NumRecords, b.LastOffsetDelta, len(b.Records))
				continue
			}
			if want := s.P.Knob("codec", 0); int64(b.Codec()) != want && want != 0 {
				// a codec may fall back to none only if compression did not shrink
				if b.Codec() != 0 {
					s.Violf("C18/batch/codec", "batch for %s uses codec %d, configured %d", tp, b.Codec(), want)
				}
			}
			maxTs := int64(-1 << 62)
			var vals []string
			for i, rec := range b.Records {
				if rec.Offset != int64(i) {
					s.Violf("C18/batch/offset-delta", "batch for %s: record %d has offset delta %d", tp, i, rec.Offset)
				}
				if rec.Timestamp > maxTs {
					maxTs = rec.Timestamp
				}
				vals = append(vals, string(rec.Value))
				w.seen = append(w.seen, wireRec{val: string(rec.Value), key: rec.Key, ts: rec.Timestamp, topic: topic, part: p.Partition})
			}
			if b.FirstTimestamp != b.Records[0].Timestamp || b.MaxTimestamp != maxTs {
				s.Violf("C18/batch/timestamps", "batch for %s: first=%d (record0=%d) max=%d (actual max=%d)", tp, b.FirstTimestamp, b.Records[0].Timestamp, b.MaxTimestamp, maxTs)
			}
			idem := s.P.Knob("disable_idem", 0) == 0
			if idem {
				if b.ProducerID < 0 || b.ProducerEpoch < 0 || b.BaseSequence < 0 {
					s.Violf("C18/batch/producer-fields", "idempotent batch for %s has pid=%d epoch=%d seq=%d", tp, b.ProducerID, b.ProducerEpoch, b.BaseSequence)
				}
				k := fmt.Sprintf("%d/%d/%s", b.ProducerID, b.ProducerEpoch, tp)
				if !r.NoProc {
					w.mu.Lock()
					w.pending[fmt.Sprintf("%s/%d/%s", r.Conn.Name, r.Corr, tp)] = &sentBatch{key: k, tp: tp, pid: b.ProducerID, epoch: b.ProducerEpoch, seq: b.BaseSequence, vals: vals, conn: r.Conn}
					w.mu.Unlock()
				}
			} else if b.ProducerID != -1 {
				s.Violf("C18/batch/producer-fields", "non-idempotent batch for %s carries pid=%d", tp, b.ProducerID)
			}
			// per-caller order inside the batch
			last := map[string]int{}
			for _, v := range vals {
				w.st.mu.Lock()
				pr := w.st.byVal[v]
				w.st.mu.Unlock()
				if pr == nil {
					s.Violf("C18/batch/unknown-record", "batch for %s carries a value nobody produced: %.40q", tp, v)
					continue
				}
				if pr.topic != topic || pr.part != p.Partition {
					s.Violf("C18/batch/wrong-partition", "record %s produced to %s/%d was written to %s", v, pr.topic, pr.part, tp)
				}
				ak := fmt.Sprintf("%s/%d", pr.client, pr.actor)
				if l, ok := last[ak]; ok && pr.idx <= l {
					s.Violf("C18/batch/order", "batch for %s holds %s (index %d) after index %d of the same caller", tp, v, pr.idx, l)
				}
				last[ak] = pr.idx
			}
		}
	}
}

func (w *produceWire) onResp(r *WireResp) {}

// onWritten sees produce requests in the client's write order (C29 client
// clause: delivery order differs from write order across connections).
func (w *produceWire) onWritten(r *WireReq) {
	if r.Key != 0 || !strings.HasPrefix(r.Conn.Client, "p") || r.Req == nil || w.s.P.Knob("disable_idem", 0) != 0 {
		return
	}
	req := r.Req.(*kmsg.ProduceRequest)
	for _, t := range req.Topics {
		topic := w.s.reqTopic(t.Topic, t.TopicID)
		for _, p := range t.Partitions {
			if len(p.Records) == 0 {
				continue
			}
			bs, err := RefDecodeBatches(p.Records)
			if err != nil || len(bs) != 1 {
				continue // judged by the C18 monitor at delivery
			}
			b := bs[0]
			tp := fmt.Sprintf("%s/%d", topic, p.Partition)
			w.s.Logf("WROTE produce %s corr=%d pid=%d epoch=%d %s seq=%d n=%d", r.Conn.Name, r.Corr, b.ProducerID, b.ProducerEpoch, tp, b.BaseSequence, len(b.Records))
			w.clientSeq(fmt.Sprintf("%d/%d/%s", b.ProducerID, b.ProducerEpoch, tp), tp, b.ProducerID, b.ProducerEpoch, b.BaseSequence, int32(len(b.Records)))
		}
	}
}

// onProcessed is the broker's genuine verdict on a produce request. A batch
// the broker reports as appended occupies its sequence numbers for good: a
// second, different batch acknowledged under the same (pid, epoch,
// partition, sequence) means the client reused sequence numbers of records
// that are in the log (the broker deduplicated, so the new records are lost).
func (w *produceWire) onProcessed(r *WireResp) {
	if r.Key != 0 || r.Resp == nil {
		return
	}
	s := w.s
	resp := r.Resp.(*kmsg.ProduceResponse)
	w.mu.Lock()
	defer w.mu.Unlock()
	for _, t := range resp.Topics {
		topic := s.reqTopic(t.Topic, t.TopicID)
		for _, p := range t.Partitions {
			tp := fmt.Sprintf("%s/%d", topic, p.Partition)
			pk := fmt.Sprintf("%s/%d/%s", r.Conn.Name, r.Corr, tp)
			sb := w.pending[pk]
			if sb == nil {
				continue
			}
			delete(w.pending, pk)
			w.brokerSeq(sb, tp, p.ErrorCode, p.BaseOffset)
			if p.ErrorCode != 0 {
				continue
			}
			m := w.seqs[sb.key]
			if m == nil {
				m = map[int32][]string{}
				w.seqs[sb.key] = m
			}
			if prev, ok := m[sb.seq]; ok {
				if strings.Join(prev, "\x00") != strings.Join(sb.vals, "\x00") {
					s.Violf("C18/sequence/reused", "batch pid=%d epoch=%d %s seq=%d was appended, then the same sequence was sent with different records and acknowledged by the broker as a duplicate (%d vs %d records)", sb.pid, sb.epoch, tp, sb.seq, len(prev), len(sb.vals))
				}
				s.Probe("produce_retry_deduplicated")
				continue
			}
			for base, pv := range m {
				lo, hi := int64(base), int64(base)+int64(len(pv))
				a, z := int64(sb.seq), int64(sb.seq)+int64(len(sb.vals))
				if a < hi && lo < z {
					s.Violf("C18/sequence/overlap", "batch pid=%d epoch=%d %s seq=[%d,%d) was appended although it overlaps an appended batch [%d,%d)", sb.pid, sb.epoch, tp, a, z, lo, hi)
				}
			}
			m[sb.seq] = sb.vals
		}
	}
}

func (w *produceWire) finish() {
	s := w.s
	w.clientSeqFinal()
	s.Count("wire.produce_requests", int64(w.nreq))
	s.Max("wire.max_produce_frame", int64(w.maxFrame))
	s.Max("wire.max_batch", int64(w.maxBatch))
	w.st.mu.Lock()
	defer w.st.mu.Unlock()
	for _, wr := range w.seen {
		pr := w.st.byVal[wr.val]
		if pr == nil {
			continue
		}
		if !bytes.Equal(wr.key, pr.rec.Key) {
			s.Violf("C18/record/key", "record %s written with key %q, produced with %q", wr.val, wr.key, pr.rec.Key)
		}
		if ts := pr.rec.Timestamp.UnixMilli(); ts != wr.ts {
			s.Violf("C18/record/timestamp", "record %s written with timestamp %d, record has %d", wr.val, wr.ts, ts)
		}
	}
}

// filteredStacks returns the stacks of goroutines that have a frame
// containing filter, at most n of them.
func filteredStacks(filter string, n int) string {
	buf := make([]byte, 4<<20)
	buf = buf[:runtime.Stack(buf, true)]
	var out []string
	for _, g := range strings.Split(string(buf), "\n\n") {
		if strings.Contains(g, "pkg/"+filter+".") || strings.Contains(g, "pkg/"+filter+"/") {
			out = append(out, g)
			if len(out) >= n {
				break
			}
		}
	}
	return strings.Join(out, "\n\n")
}

// ---- C29: sequence numbers modulo 2^31, in the client and in kfake ----

const seqMod = int64(1) << 31

func seqAdd(seq, n int32) int32 { return int32((int64(seq) + int64(n)) % seqMod) }

// clientSeq: within one (producer id, epoch, partition) every batch written
// starts where another written batch ended, modulo 2^31, except the first of
// the chain (which starts anywhere: 0, or where the harness fast-forwarded
// it). This is judged over the set of batches at the end of the run, not in
// wire order: requests queued behind a failed connection attempt are written
// when the next attempt succeeds, ahead of the re-issued request that carries
// the batch before theirs, so a batch can reach the wire before its
// predecessor does (the broker rejects it and the client resends in order).
func (w *produceWire) clientSeq(k, tp string, pid int64, epoch int16, seq, n int32) {
	s := w.s
	if s.P.Knob("allow_cancel", 0) != 0 || pid < 0 {
		return // the option rewinds sequences by design (recorded finding)
	}
	w.mu.Lock()
	defer w.mu.Unlock()
	seen := w.cliSeen[k]
	if seen == nil {
		seen = map[int32]bool{}
		w.cliSeen[k] = seen
		w.cliEnds[k] = map[int32]bool{}
		w.cliDesc[k] = fmt.Sprintf("producer %d epoch %d %s", pid, epoch, tp)
	}
	seen[seq] = true
	nx := seqAdd(seq, n)
	w.cliEnds[k][nx] = true
	if nx < seq {
		s.Probe("client_sequence_wrapped")
	}
}

func (w *produceWire) clientSeqFinal() {
	w.mu.Lock()
	defer w.mu.Unlock()
	keys := make([]string, 0, len(w.cliSeen))
	for k := range w.cliSeen {
		keys = append(keys, k)
	}
	sort.Strings(keys)
	for _, k := range keys {
		var loose []int
		for seq := range w.cliSeen[k] {
			if !w.cliEnds[k][seq] {
				loose = append(loose, int(seq))
			}
		}
		sort.Ints(loose)
		if len(loose) > 1 {
			w.s.Violf("C29/client/sequence-not-contiguous", "%s: batches were written starting at sequences %v, and no written batch of this producer epoch ends at more than one of them (mod 2^31)", w.cliDesc[k], loose)
		}
	}
}

type seqEnt struct {
	first, next int32
	off         int64
}

type seqState struct {
	seen  bool
	epoch int16
	next  int32
	win   []seqEnt
}

// brokerSeq steps a reference model of Kafka's per-partition producer state
// (next expected sequence modulo 2^31, the last five appended batches) with
// every genuine produce verdict of the broker and compares.
func (w *produceWire) brokerSeq(sb *sentBatch, tp string, code int16, base int64) {
	s := w.s
	switch code {
	case 0, 45, 46: // NONE, OUT_OF_ORDER_SEQUENCE_NUMBER, DUPLICATE_SEQUENCE_NUMBER
	default:
		return // leadership, time-outs, fencing: no verdict on the sequence
	}
	n := int32(len(sb.vals))
	nx := seqAdd(sb.seq, n)
	mk := fmt.Sprintf("%d/%s", sb.pid, tp)
	st := w.model[mk]
	if st == nil {
		st = &seqState{}
		w.model[mk] = st
	}
	desc := fmt.Sprintf("producer %d epoch %d %s batch [%d,+%d)", sb.pid, sb.epoch, tp, sb.seq, n)
	// Requests that reached the broker on a connection that died before
	// their response was written were (probably) processed, but their
	// verdict was never seen: from then on the model may lag behind the
	// broker for this producer and partition. It then follows the broker
	// instead of judging it (the end-to-end clause still judges the log).
	for _, o := range w.pending {
		if o != sb && o.pid == sb.pid && o.tp == tp && o.conn != nil && o.conn.dead.Load() {
			w.unobserved[mk] = true
		}
	}
	if w.unobserved[mk] {
		s.Probe("broker_model_follows_after_unobserved_verdicts")
		if code == 0 {
			if st.seen && sb.epoch == st.epoch {
				for _, e := range st.win {
					if e.first == sb.seq && e.next == nx {
						return
					}
				}
			}
			if !st.seen || sb.epoch >= st.epoch {
				st.seen, st.epoch, st.next = true, sb.epoch, nx
				st.win = append(st.win, seqEnt{sb.seq, nx, base})
				if len(st.win) > 5 {
					st.win = st.win[1:]
				}
			}
		}
		return
	}
	if !st.seen || sb.epoch != st.epoch {
		if st.seen && sb.epoch < st.epoch {
			return
		}
		if code == 0 {
			if st.seen && sb.seq != 0 {
				s.Violf("C29/kfake/accepted-wrong-sequence", "%s: accepted as the first batch of a new epoch although its sequence is not 0", desc)
			}
			*st = seqState{seen: true, epoch: sb.epoch, next: nx, win: []seqEnt{{sb.seq, nx, base}}}
		} else if !st.seen || sb.seq == 0 {
			s.Violf("C29/kfake/rejected-correct-sequence", "%s: first batch of a producer epoch the partition has not seen, answered with error %d", desc, code)
		}
		return
	}
	for _, e := range st.win {
		if e.first == sb.seq && e.next == nx {
			switch {
			case code == 0 && base == e.off:
				s.Probe("broker_deduplicated_retry")
			case code == 0:
				s.Violf("C29/kfake/duplicate-appended-again", "%s: a retry of a batch appended at offset %d was answered with offset %d", desc, e.off, base)
			default:
				s.Violf("C29/kfake/duplicate-rejected", "%s: a retry of one of the last five appended batches (offset %d) was answered with error %d instead of its original offset", desc, e.off, code)
			}
			return
		}
	}
	if sb.seq == st.next {
		if code != 0 {
			s.Violf("C29/kfake/rejected-correct-sequence", "%s: the partition's next expected sequence is %d (mod 2^31), yet the broker answered error %d", desc, st.next, code)
			return
		}
		if nx < sb.seq {
			s.Probe("broker_sequence_wrapped")
		}
		st.next = nx
		st.win = append(st.win, seqEnt{sb.seq, nx, base})
		if len(st.win) > 5 {
			st.win = st.win[1:]
		}
		return
	}
	if code == 0 {
		s.Violf("C29/kfake/accepted-wrong-sequence", "%s: appended at offset %d although the next expected sequence is %d and it is no retry of the last five batches", desc, base, st.next)
		// follow the broker so that one defect is reported once
		st.next = nx
		st.win = append(st.win, seqEnt{sb.seq, nx, base})
		if len(st.win) > 5 {
			st.win = st.win[1:]
		}
	}
}
