package sim

import (
	"bytes"
	"fmt"
	"runtime"
	"strings"
	"sync"

	"github.com/twmb/franz-go/pkg/kmsg"
)

// produceWire checks every Produce request that reaches a broker (C18) and
// keeps wire-level facts other oracles use.
type produceWire struct {
	s  *Sim
	st *prodState
	// (pid,epoch,topic,part) -> baseSeq -> values
	seqs    map[string]map[int32][]string
	mu      sync.Mutex
	pending map[string]*sentBatch // conn/corr/tp -> batch awaiting the broker's verdict
	// decoded records to compare against the history at the end
	seen     []wireRec
	nreq     int
	maxFrame int
	maxBatch int
}

type sentBatch struct {
	key, tp string
	pid     int64
	epoch   int16
	seq     int32
	vals    []string
}

type wireRec struct {
	val   string
	key   []byte
	ts    int64
	topic string
	part  int32
}

func newProduceWire(s *Sim, st *prodState) *produceWire {
	return &produceWire{s: s, st: st, seqs: map[string]map[int32][]string{}, pending: map[string]*sentBatch{}}
}

func (w *produceWire) onReq(r *WireReq) {
	if r.Key != 0 || !strings.HasPrefix(r.Conn.Client, "p") {
		return
	}
	s := w.s
	w.nreq++
	if r.Req == nil {
		s.Violf("C18/decode/request", "produce request v%d on %s does not decode with the generated codec", r.Ver, r.Conn.Name)
		return
	}
	req := r.Req.(*kmsg.ProduceRequest)
	maxWrite := s.P.Knob("max_write_bytes", 100<<20)
	maxBatch := s.P.Knob("batch_max_bytes", 1000012)
	if len(r.Raw) > w.maxFrame {
		w.maxFrame = len(r.Raw)
	}
	if int64(len(r.Raw)) > maxWrite {
		desc := ""
		for _, t := range req.Topics {
			for _, p := range t.Partitions {
				desc += fmt.Sprintf(" %s/%d:%dB", s.reqTopic(t.Topic, t.TopicID), p.Partition, len(p.Records))
			}
		}
		s.Violf("C18/limit/request-size", "produce request v%d of %d bytes exceeds BrokerMaxWriteBytes=%d (client id %q, batches:%s)", r.Ver, len(r.Raw), maxWrite, r.ClientID, desc)
	}
	seenTP := map[string]bool{}
	for _, t := range req.Topics {
		topic := s.reqTopic(t.Topic, t.TopicID)
		for _, p := range t.Partitions {
			tp := fmt.Sprintf("%s/%d", topic, p.Partition)
			if seenTP[tp] {
				s.Violf("C18/shape/partition-twice", "partition %s appears twice in one produce request", tp)
			}
			seenTP[tp] = true
			if len(p.Records) == 0 {
				// the client blanks a partition whose batch was failed
				// after the request was built; nothing is written for it
				s.Probe("produce_partition_blanked")
				continue
			}
			bs, err := RefDecodeBatches(p.Records)
			if err != nil {
				s.Violf("C18/decode/batch", "records for %s do not decode: %v", tp, err)
				continue
			}
			total := 0
			for _, b := range bs {
				total += b.RawLen
			}
			if len(bs) != 1 || total != len(p.Records) {
				s.Violf("C18/shape/batch-count", "records for %s hold %d batches (%d of %d bytes)", tp, len(bs), total, len(p.Records))
				continue
			}
			b := bs[0]
			if b.RawLen > w.maxBatch {
				w.maxBatch = b.RawLen
			}
			if int64(b.RawLen) > maxBatch {
				s.Violf("C18/limit/batch-size", "batch for %s is %d bytes, ProducerBatchMaxBytes=%d (records=%d)", tp, b.RawLen, maxBatch, b.NumRecords)
			}
			if !b.CRCOk {
				s.Violf("C18/batch/crc", "batch for %s has a wrong CRC", tp)
			}
			if b.BaseOffset != 0 || int(b.NumRecords) != len(b.Records) || int(b.LastOffsetDelta) != len(b.Records)-1 || len(b.Records) == 0 {
				s.Violf("C18/batch/counts", "batch for %s: base=%d numRecords=%d lastOffsetDelta=%d decoded=%d", tp, b.BaseOffset, b.NumRecords, b.LastOffsetDelta, len(b.Records))
				continue
			}
			if want := s.P.Knob("codec", 0); int64(b.Codec()) != want && want != 0 {
				// a codec may fall back to none only if compression did not shrink
				if b.Codec() != 0 {
					s.Violf("C18/batch/codec", "batch for %s uses codec %d, configured %d", tp, b.Codec(), want)
				}
			}
			maxTs := int64(-1 << 62)
			var vals []string
			for i, rec := range b.Records {
				if rec.Offset != int64(i) {
					s.Violf("C18/batch/offset-delta", "batch for %s: record %d has offset delta %d", tp, i, rec.Offset)
				}
				if rec.Timestamp > maxTs {
					maxTs = rec.Timestamp
				}
				vals = append(vals, string(rec.Value))
				w.seen = append(w.seen, wireRec{val: string(rec.Value), key: rec.Key, ts: rec.Timestamp, topic: topic, part: p.Partition})
			}
			if b.FirstTimestamp != b.Records[0].Timestamp || b.MaxTimestamp != maxTs {
				s.Violf("C18/batch/timestamps", "batch for %s: first=%d (record0=%d) max=%d (actual max=%d)", tp, b.FirstTimestamp, b.Records[0].Timestamp, b.MaxTimestamp, maxTs)
			}
			idem := s.P.Knob("disable_idem", 0) == 0
			if idem {
				if b.ProducerID < 0 || b.ProducerEpoch < 0 || b.BaseSequence < 0 {
					s.Violf("C18/batch/producer-fields", "idempotent batch for %s has pid=%d epoch=%d seq=%d", tp, b.ProducerID, b.ProducerEpoch, b.BaseSequence)
				}
				k := fmt.Sprintf("%d/%d/%s", b.ProducerID, b.ProducerEpoch, tp)
				if !r.NoProc {
					w.mu.Lock()
					w.pending[fmt.Sprintf("%s/%d/%s", r.Conn.Name, r.Corr, tp)] = &sentBatch{key: k, tp: tp, pid: b.ProducerID, epoch: b.ProducerEpoch, seq: b.BaseSequence, vals: vals}
					w.mu.Unlock()
				}
			} else if b.ProducerID != -1 {
				s.Violf("C18/batch/producer-fields", "non-idempotent batch for %s carries pid=%d", tp, b.ProducerID)
			}
			// per-caller order inside the batch
			last := map[string]int{}
			for _, v := range vals {
				w.st.mu.Lock()
				pr := w.st.byVal[v]
				w.st.mu.Unlock()
				if pr == nil {
					s.Violf("C18/batch/unknown-record", "batch for %s carries a value nobody produced: %.40q", tp, v)
					continue
				}
				if pr.topic != topic || pr.part != p.Partition {
					s.Violf("C18/batch/wrong-partition", "record %s produced to %s/%d was written to %s", v, pr.topic, pr.part, tp)
				}
				ak := fmt.Sprintf("%s/%d", pr.client, pr.actor)
				if l, ok := last[ak]; ok && pr.idx <= l {
					s.Violf("C18/batch/order", "batch for %s holds %s (index %d) after index %d of the same caller", tp, v, pr.idx, l)
				}
				last[ak] = pr.idx
			}
		}
	}
}

func (w *produceWire) onResp(r *WireResp) {}

// onProcessed is the broker's genuine verdict on a produce request. A batch
// the broker reports as appended occupies its sequence numbers for good: a
// second, different batch acknowledged under the same (pid, epoch,
// partition, sequence) means the client reused sequence numbers of records
// that are in the log (the broker deduplicated, so the new records are lost).
func (w *produceWire) onProcessed(r *WireResp) {
	if r.Key != 0 || r.Resp == nil {
		return
	}
	s := w.s
	resp := r.Resp.(*kmsg.ProduceResponse)
	w.mu.Lock()
	defer w.mu.Unlock()
	for _, t := range resp.Topics {
		topic := s.reqTopic(t.Topic, t.TopicID)
		for _, p := range t.Partitions {
			tp := fmt.Sprintf("%s/%d", topic, p.Partition)
			pk := fmt.Sprintf("%s/%d/%s", r.Conn.Name, r.Corr, tp)
			sb := w.pending[pk]
			if sb == nil {
				continue
			}
			delete(w.pending, pk)
			if p.ErrorCode != 0 {
				continue
			}
			m := w.seqs[sb.key]
			if m == nil {
				m = map[int32][]string{}
				w.seqs[sb.key] = m
			}
			if prev, ok := m[sb.seq]; ok {
				if strings.Join(prev, "\x00") != strings.Join(sb.vals, "\x00") {
					s.Violf("C18/sequence/reused", "batch pid=%d epoch=%d %s seq=%d was appended, then the same sequence was sent with different records and acknowledged by the broker as a duplicate (%d vs %d records)", sb.pid, sb.epoch, tp, sb.seq, len(prev), len(sb.vals))
				}
				s.Probe("produce_retry_deduplicated")
				continue
			}
			for base, pv := range m {
				lo, hi := int64(base), int64(base)+int64(len(pv))
				a, z := int64(sb.seq), int64(sb.seq)+int64(len(sb.vals))
				if a < hi && lo < z {
					s.Violf("C18/sequence/overlap", "batch pid=%d epoch=%d %s seq=[%d,%d) was appended although it overlaps an appended batch [%d,%d)", sb.pid, sb.epoch, tp, a, z, lo, hi)
				}
			}
			m[sb.seq] = sb.vals
		}
	}
}

func (w *produceWire) finish() {
	s := w.s
	s.Count("wire.produce_requests", int64(w.nreq))
	s.Max("wire.max_produce_frame", int64(w.maxFrame))
	s.Max("wire.max_batch", int64(w.maxBatch))
	w.st.mu.Lock()
	defer w.st.mu.Unlock()
	for _, wr := range w.seen {
		pr := w.st.byVal[wr.val]
		if pr == nil {
			continue
		}
		if !bytes.Equal(wr.key, pr.rec.Key) {
			s.Violf("C18/record/key", "record %s written with key %q, produced with %q", wr.val, wr.key, pr.rec.Key)
		}
		if ts := pr.rec.Timestamp.UnixMilli(); ts != wr.ts {
			s.Violf("C18/record/timestamp", "record %s written with timestamp %d, record has %d", wr.val, wr.ts, ts)
		}
	}
}

// filteredStacks returns the stacks of goroutines that have a frame
// containing filter, at most n of them.
func filteredStacks(filter string, n int) string {
	buf := make([]byte, 4<<20)
	buf = buf[:runtime.Stack(buf, true)]
	var out []string
	for _, g := range strings.Split(string(buf), "\n\n") {
		if strings.Contains(g, "pkg/"+filter+".") || strings.Contains(g, "pkg/"+filter+"/") {
			out = append(out, g)
			if len(out) >= n {
				break
			}
		}
	}
	return strings.Join(out, "\n\n")
}
