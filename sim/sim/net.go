package sim

import (
	"context"
	"encoding/binary"
	"errors"
	"fmt"
	"io"
	"net"
	"os"
	"strconv"
	"sync"
	"sync/atomic"
	"time"
)

// SimNet is the only transport the system sees. Every Kafka frame written on
// a connection is held until the driver delivers, delays, rewrites, drops or
// kills it.
type SimNet struct {
	mu        sync.Mutex
	seed      uint64
	listeners map[string]*simListener
	conns     []*Conn
	activity  chan struct{}
	basePort  int
	// dialBlock: key client|broker -> dials fail until this time.
	dialBlock map[string]time.Time
	// dialHang: key client|-1 -> dials neither succeed nor fail until this
	// time or the dial context ends (an unreachable host).
	dialHang    map[string]time.Time
	dialTimeout time.Duration
	// blackholeNew: connections dialled by this client are accepted but never answered
	blackholeNew map[string]bool
	latMode      int64
	// onServerWrite is called (from the broker's writer goroutine) for every
	// complete frame a broker writes, before any fault can touch it.
	onServerWrite func(c *Conn, frame []byte)
	// onClientWrite is called (from the writing client goroutine) for
	// every complete frame a client writes, in the client's write order.
	onClientWrite func(c *Conn, frame []byte)
	dials         int64
	nextOrd       map[string]int
}

func NewSimNet(seed uint64, basePort int) *SimNet {
	return &SimNet{seed: seed, listeners: map[string]*simListener{}, activity: make(chan struct{}, 1), basePort: basePort, dialBlock: map[string]time.Time{}, dialHang: map[string]time.Time{}, blackholeNew: map[string]bool{}, nextOrd: map[string]int{}}
}

func (n *SimNet) poke() {
	select {
	case n.activity <- struct{}{}:
	default:
	}
}

type simAddr string

func (a simAddr) Network() string { return "tcp" }
func (a simAddr) String() string  { return string(a) }

type simListener struct {
	n      *SimNet
	addr   string
	ch     chan net.Conn
	closed chan struct{}
	once   sync.Once
}

// Listen implements kfake.ListenFn.
func (n *SimNet) Listen(_, address string) (net.Listener, error) {
	n.mu.Lock()
	defer n.mu.Unlock()
	if _, ok := n.listeners[address]; ok {
		return nil, fmt.Errorf("listen %s: address in use", address)
	}
	l := &simListener{n: n, addr: address, ch: make(chan net.Conn), closed: make(chan struct{})}
	n.listeners[address] = l
	return l, nil
}

func (l *simListener) Accept() (net.Conn, error) {
	select {
	case c := <-l.ch:
		return c, nil
	case <-l.closed:
		return nil, errors.New("listener closed")
	}
}

func (l *simListener) Close() error {
	l.once.Do(func() {
		close(l.closed)
		l.n.mu.Lock()
		delete(l.n.listeners, l.addr)
		l.n.mu.Unlock()
	})
	return nil
}
func (l *simListener) Addr() net.Addr { return simAddr(l.addr) }

// reqInfo is what the simulator remembers about an outstanding request.
type reqInfo struct {
	key, ver int16
	corr     int32
	body     []byte // request body after the header
	noResp   bool
	sentAt   time.Time
	seq      uint64
}

// Conn is one simulated TCP connection.
type Conn struct {
	ID     int
	Client string
	Broker int32
	Addr   string
	Name   string
	c2s    *half
	s2c    *half

	stalledUntil time.Time
	blackhole    bool // responses silently dropped (half-open)
	dead         atomic.Bool
	// resetAt: instant (UnixNano) at which the connection was reset while a
	// response was still owed on it - the client has a read outstanding and
	// notices; 0 otherwise
	resetAt atomic.Int64
	tainted      bool // a byte-level mutation happened on s2c
	omu          sync.Mutex
	outstanding  map[int32]*reqInfo
	order        []int32          // request order for which a response is still to be framed
	fab          map[int32][]byte // fabricated responses waiting for their turn
}

type frame struct {
	data []byte
	at   time.Time
	idx  int
	fab  bool
}

// half is one direction of a connection.
type half struct {
	n       *SimNet
	conn    *Conn
	name    string
	c2s     bool
	mu      sync.Mutex
	asm     []byte   // written, not yet a complete frame
	q       []*frame // framed, awaiting delivery
	lastAt  time.Time
	buf     []byte // delivered, unread
	closed  bool
	rdWake  chan struct{}
	rdDeadl time.Time
	nframes int
	extraMs int64 // slow-broker extra latency
}

func newHalf(n *SimNet, c *Conn, name string, c2s bool) *half {
	return &half{n: n, conn: c, name: name, c2s: c2s, rdWake: make(chan struct{}, 1)}
}

func (h *half) wake() {
	select {
	case h.rdWake <- struct{}{}:
	default:
	}
}

func mix64(z uint64) uint64 {
	z += 0x9e3779b97f4a7c15
	z = (z ^ (z >> 30)) * 0xbf58476d1ce4e5b9
	z = (z ^ (z >> 27)) * 0x94d049bb133111eb
	return z ^ (z >> 31)
}

func hashStr(s string) uint64 {
	var h uint64 = 0xcbf29ce484222325
	for i := 0; i < len(s); i++ {
		h = (h ^ uint64(s[i])) * 0x100000001b3
	}
	return h
}

// latency is an order-insensitive function of (seed, half, frame index), so
// removing one fault from a plan does not reshuffle all later latencies.
func (n *SimNet) latency(name string, idx int) time.Duration {
	x := mix64(n.seed ^ hashStr(name) ^ (uint64(idx) * 0x9e3779b97f4a7c15))
	r := x % 100
	y := mix64(x)
	us := func(lo, hi uint64) time.Duration { return time.Duration(lo+y%(hi-lo)) * time.Microsecond }
	switch n.latMode {
	case 1: // fast
		return us(50, 2000)
	case 2: // heavy tail
		switch {
		case r < 50:
			return us(50, 2000)
		case r < 85:
			return us(2000, 50000)
		default:
			return us(100000, 3000000)
		}
	}
	switch {
	case r < 70:
		return us(50, 2000)
	case r < 95:
		return us(2000, 50000)
	default:
		return us(100000, 3000000)
	}
}

func (h *half) write(p []byte) (int, error) {
	h.mu.Lock()
	if h.closed {
		h.mu.Unlock()
		return 0, io.ErrClosedPipe
	}
	h.asm = append(h.asm, p...)
	now := time.Now()
	var written [][]byte
	for len(h.asm) >= 4 {
		l := int(int32(binary.BigEndian.Uint32(h.asm)))
		if l < 0 || l > 1<<28 {
			// not a Kafka frame; pass the bytes through as one chunk
			l = len(h.asm) - 4
		}
		if len(h.asm) < 4+l {
			break
		}
		data := append([]byte(nil), h.asm[:4+l]...)
		h.asm = h.asm[4+l:]
		h.enqueueLocked(data, now, false)
		if !h.c2s && h.n.onServerWrite != nil {
			written = append(written, data)
		}
		if h.c2s && h.n.onClientWrite != nil {
			written = append(written, data)
		}
	}
	h.mu.Unlock()
	for _, d := range written {
		if h.c2s {
			h.n.onClientWrite(h.conn, d)
		} else {
			h.n.onServerWrite(h.conn, d)
		}
	}
	h.n.poke()
	return len(p), nil
}

func (h *half) enqueueLocked(data []byte, now time.Time, fab bool) {
	at := now.Add(h.n.latency(h.name, h.nframes) + time.Duration(h.extraMs)*time.Millisecond)
	if at.Before(h.lastAt) {
		at = h.lastAt
	}
	h.lastAt = at
	h.q = append(h.q, &frame{data: data, at: at, idx: h.nframes, fab: fab})
	h.nframes++
}

func (h *half) read(p []byte) (int, error) {
	for {
		h.mu.Lock()
		if len(h.buf) > 0 {
			n := copy(p, h.buf)
			h.buf = h.buf[n:]
			h.mu.Unlock()
			return n, nil
		}
		if h.closed {
			h.mu.Unlock()
			return 0, io.EOF
		}
		dl := h.rdDeadl
		h.mu.Unlock()
		var tc <-chan time.Time
		var t *time.Timer
		if !dl.IsZero() {
			d := time.Until(dl)
			if d <= 0 {
				return 0, os.ErrDeadlineExceeded
			}
			t = time.NewTimer(d)
			tc = t.C
		}
		select {
		case <-h.rdWake:
		case <-tc:
		}
		if t != nil {
			t.Stop()
		}
	}
}

func (h *half) setReadDeadline(t time.Time) {
	h.mu.Lock()
	h.rdDeadl = t
	h.mu.Unlock()
	h.wake()
}

func (h *half) close() {
	h.mu.Lock()
	h.closed = true
	h.mu.Unlock()
	h.wake()
	h.n.poke()
}

func (h *half) deliverBytes(b []byte) {
	h.mu.Lock()
	h.buf = append(h.buf, b...)
	h.mu.Unlock()
	h.wake()
}

type simConn struct {
	conn   *Conn
	rd, wr *half
	local  string
	remote string
}

func (c *simConn) Read(p []byte) (int, error)  { return c.rd.read(p) }
func (c *simConn) Write(p []byte) (int, error) { return c.wr.write(p) }
func (c *simConn) Close() error {
	c.rd.close()
	c.wr.close()
	return nil
}
func (c *simConn) LocalAddr() net.Addr                { return simAddr(c.local) }
func (c *simConn) RemoteAddr() net.Addr               { return simAddr(c.remote) }
func (c *simConn) SetDeadline(t time.Time) error      { c.rd.setReadDeadline(t); return nil }
func (c *simConn) SetReadDeadline(t time.Time) error  { c.rd.setReadDeadline(t); return nil }
func (c *simConn) SetWriteDeadline(t time.Time) error { return nil }

// Dialer returns a kgo.Dialer-compatible function that names the connections
// it opens after the client.
func (n *SimNet) Dialer(client string) func(ctx context.Context, network, address string) (net.Conn, error) {
	return func(ctx context.Context, _, address string) (net.Conn, error) {
		return n.dial(ctx, client, address)
	}
}

func (n *SimNet) brokerOf(address string) int32 {
	_, p, err := net.SplitHostPort(address)
	if err != nil {
		return -1
	}
	port, _ := strconv.Atoi(p)
	return int32(port - n.basePort)
}

func (n *SimNet) dial(ctx context.Context, client, address string) (net.Conn, error) {
	n.mu.Lock()
	n.dials++
	host, p, _ := net.SplitHostPort(address)
	if host == "localhost" {
		address = "127.0.0.1:" + p
	}
	l := n.listeners[address]
	b := n.brokerOf(address)
	if until, ok := n.dialBlock[fmt.Sprintf("%s|%d", client, b)]; ok && time.Now().Before(until) {
		l = nil
	}
	if until, ok := n.dialBlock[fmt.Sprintf("|%d", b)]; ok && time.Now().Before(until) {
		l = nil
	}
	if until, ok := n.dialBlock[client+"|-1"]; ok && time.Now().Before(until) {
		l = nil
	}
	if until, ok := n.dialHang[client+"|-1"]; ok && time.Now().Before(until) {
		n.mu.Unlock()
		// a dialer has a time-out of its own (net.Dialer.Timeout; kgo's
		// default dialer uses DialTimeout = 10s)
		d := time.Until(until)
		if n.dialTimeout > 0 && d > n.dialTimeout {
			d = n.dialTimeout
		}
		t := time.NewTimer(d)
		defer t.Stop()
		select {
		case <-ctx.Done():
			return nil, ctx.Err()
		case <-t.C:
			return nil, fmt.Errorf("dial %s: i/o timeout", address)
		}
	}
	if l == nil {
		n.mu.Unlock()
		return nil, fmt.Errorf("dial %s: connection refused", address)
	}
	id := len(n.conns)
	key := fmt.Sprintf("%s>b%d", client, b)
	ord := n.nextOrd[key]
	n.nextOrd[key] = ord + 1
	c := &Conn{ID: id, Client: client, Broker: b, Addr: address, Name: fmt.Sprintf("%s#%d", key, ord), outstanding: map[int32]*reqInfo{}, fab: map[int32][]byte{}}
	c.c2s = newHalf(n, c, c.Name+":c2s", true)
	c.s2c = newHalf(n, c, c.Name+":s2c", false)
	c.blackhole = n.blackholeNew[client]
	n.conns = append(n.conns, c)
	n.mu.Unlock()
	cli := &simConn{conn: c, rd: c.s2c, wr: c.c2s, local: fmt.Sprintf("%s:%d", client, id), remote: address}
	srv := &simConn{conn: c, rd: c.c2s, wr: c.s2c, local: address, remote: fmt.Sprintf("%s:%d", client, id)}
	select {
	case l.ch <- srv:
		return cli, nil
	case <-l.closed:
		c.dead.Store(true)
		return nil, fmt.Errorf("dial %s: connection refused", address)
	case <-ctx.Done():
		c.dead.Store(true)
		return nil, ctx.Err()
	}
}

// kill resets a connection: both directions closed, undelivered frames lost.
func (c *Conn) kill() {
	c.omu.Lock()
	owed := len(c.outstanding)
	c.omu.Unlock()
	if owed > 0 {
		c.resetAt.CompareAndSwap(0, time.Now().UnixNano())
	}
	c.dead.Store(true)
	c.c2s.mu.Lock()
	c.c2s.q = nil
	c.c2s.mu.Unlock()
	c.s2c.mu.Lock()
	c.s2c.q = nil
	c.s2c.mu.Unlock()
	c.c2s.close()
	c.s2c.close()
}

func (c *Conn) closedBoth() bool {
	c.c2s.mu.Lock()
	a := c.c2s.closed
	c.c2s.mu.Unlock()
	c.s2c.mu.Lock()
	b := c.s2c.closed
	c.s2c.mu.Unlock()
	return a && b
}

func (c *Conn) setExtra(ms int64) {
	for _, h := range []*half{c.c2s, c.s2c} {
		h.mu.Lock()
		h.extraMs = ms
		h.mu.Unlock()
	}
}

func (c *Conn) lookup(corr int32) *reqInfo {
	c.omu.Lock()
	defer c.omu.Unlock()
	return c.outstanding[corr]
}

func (c *Conn) setOutstanding(corr int32, ri *reqInfo) {
	c.omu.Lock()
	if ri == nil {
		delete(c.outstanding, corr)
	} else {
		c.outstanding[corr] = ri
	}
	c.omu.Unlock()
}
