package sim

import (
	"context"
	"fmt"
	"sync"
	"time"

	"github.com/twmb/franz-go/pkg/kfake"
	"github.com/twmb/franz-go/pkg/kgo"
	"github.com/twmb/franz-go/pkg/kmsg"
	"github.com/twmb/franz-go/pkg/kversion"
)

func init() { Scenarios["versions"] = scenVersions }

// Scenario versions (C21). The real broker (kfake) answers ApiVersions; the
// simulated network rewrites every ApiVersions response to a generated
// sub-range per request key (some keys unchanged, some with a lower maximum,
// some with a raised minimum as well, some removed), a function of (seed,
// broker, that broker's epoch, key). An environment event "restarts" a broker
// with other ranges: its epoch is bumped and all its connections are reset.
// The client gets generated MinVersions/MaxVersions. kfake accepts any
// version inside its own range, so the narrowed advertisement is honoured end
// to end.
//
// Oracles, on the wire, per request frame, against the ranges advertised on
// THAT connection:
//   - every frame (any client, any key but ApiVersions): the key was
//     advertised, version <= min(advertised max, user max), version >=
//     max(advertised min, user min);
//   - frames of the keys only the harness issues through Request/
//     Broker.Request (no internal pin): version == the highest version allowed
//     by the client's own maximum, the advertised maximum and the user's
//     maximum; if that is below the advertised or user minimum nothing may be
//     written and the call must fail.
var versionHarnessKeys = []int16{60, 32, 29, 48, 50, 46, 74, 75, 2, 19, 37, 20}

type verState struct {
	s     *Sim
	mu    sync.Mutex
	epoch map[int32]int
	adv   map[*Conn]map[int16][2]int16 // ranges advertised on a connection
	umax  *kversion.Versions
	umin  *kversion.Versions
}

func (vs *verState) rewrite(c *Conn, ri *reqInfo, data []byte) ([][]byte, bool) {
	if ri.key != 18 {
		return nil, false
	}
	resp, ok := decodeResp(18, ri.ver, data).(*kmsg.ApiVersionsResponse)
	if !ok || resp.ErrorCode != 0 {
		return nil, false
	}
	s := vs.s
	vs.mu.Lock()
	ep := vs.epoch[c.Broker]
	vs.mu.Unlock()
	adv := map[int16][2]int16{}
	keep := resp.ApiKeys[:0]
	narrow := uint64(s.P.Knob("narrow_pct", 60))
	for _, k := range resp.ApiKeys {
		if k.ApiKey == 18 {
			keep = append(keep, k)
			adv[18] = [2]int16{k.MinVersion, k.MaxVersion}
			continue
		}
		x := mix64(s.P.Seed ^ uint64(c.Broker+1)*0x9e3779b97f4a7c15 ^ uint64(ep+1)*0xbf58476d1ce4e5b9 ^ uint64(k.ApiKey)*0x94d049bb133111eb)
		span := uint64(k.MaxVersion-k.MinVersion) + 1
		switch r := x % 100; {
		case r < narrow*8/100:
			s.Count("adv.key_removed", 1)
			continue
		case r < narrow*65/100:
			k.MaxVersion = k.MinVersion + int16(mix64(x)%span)
			s.Count("adv.max_lowered", 1)
		case r < narrow:
			lo := k.MinVersion + int16(mix64(x)%span)
			hi := lo + int16(mix64(x+1)%uint64(k.MaxVersion-lo+1))
			k.MinVersion, k.MaxVersion = lo, hi
			s.Count("adv.min_raised", 1)
		}
		adv[k.ApiKey] = [2]int16{k.MinVersion, k.MaxVersion}
		keep = append(keep, k)
	}
	resp.ApiKeys = keep
	vs.mu.Lock()
	vs.adv[c] = adv
	vs.mu.Unlock()
	return [][]byte{encodeResp(ri.corr, resp)}, false
}

func lookup(v *kversion.Versions, key int16) (int16, bool) {
	if v == nil {
		return -1, false
	}
	return v.LookupMaxKeyVersion(key)
}

// allowed computes the highest version the property allows for key on a
// connection, or ok=false when no version satisfies all bounds.
func (vs *verState) allowed(c *Conn, key int16) (ver int16, ok bool, why string) {
	vs.mu.Lock()
	adv, seen := vs.adv[c]
	vs.mu.Unlock()
	if !seen {
		return 0, false, "no ApiVersions exchange on this connection"
	}
	r, has := adv[key]
	if !has {
		return 0, false, "key not advertised"
	}
	req := kmsg.RequestForKey(key)
	if req == nil {
		return 0, false, "unknown key"
	}
	hi := req.MaxVersion()
	if r[1] < hi {
		hi = r[1]
	}
	if vs.umax != nil {
		um, has := vs.umax.LookupMaxKeyVersion(key)
		if !has {
			return 0, false, "key not in the user's MaxVersions"
		}
		if um < hi {
			hi = um
		}
	}
	lo := r[0]
	if um, has := lookup(vs.umin, key); has && um > lo {
		lo = um
	}
	if hi < lo {
		return 0, false, fmt.Sprintf("empty range: highest allowed %d below lowest allowed %d", hi, lo)
	}
	return hi, true, ""
}

func versionsByName(n int64) *kversion.Versions {
	switch n {
	case 1:
		return kversion.Stable()
	case 2:
		return kversion.V2_4_0()
	case 3:
		return kversion.V3_0_0()
	case 4:
		return kversion.V3_6_0()
	case 5:
		return kversion.V4_0_0()
	case 6:
		return kversion.Tip()
	case 7:
		return kversion.V0_10_0()
	case 8:
		return kversion.V1_0_0()
	case 9:
		return kversion.V2_1_0()
	}
	return nil
}

func harnessKeyReq(key int16, marker string) kmsg.Request {
	switch key {
	case 60:
		return kmsg.NewPtrDescribeClusterRequest()
	case 32:
		r := kmsg.NewPtrDescribeConfigsRequest()
		rr := kmsg.NewDescribeConfigsRequestResource()
		rr.ResourceType, rr.ResourceName = kmsg.ConfigResourceTypeTopic, "t0"
		r.Resources = append(r.Resources, rr)
		return r
	case 29:
		r := kmsg.NewPtrDescribeACLsRequest()
		r.ResourceType, r.ResourcePatternType, r.Operation, r.PermissionType = kmsg.ACLResourceTypeAny, kmsg.ACLResourcePatternTypeAny, kmsg.ACLOperationAny, kmsg.ACLPermissionTypeAny
		return r
	case 48:
		return kmsg.NewPtrDescribeClientQuotasRequest()
	case 50:
		return kmsg.NewPtrDescribeUserSCRAMCredentialsRequest()
	case 46:
		r := kmsg.NewPtrListPartitionReassignmentsRequest()
		r.TimeoutMillis = 1000
		return r
	case 74:
		return kmsg.NewPtrListConfigResourcesRequest()
	case 75:
		r := kmsg.NewPtrDescribeTopicPartitionsRequest()
		t := kmsg.NewDescribeTopicPartitionsRequestTopic()
		t.Topic = "t0"
		r.Topics = append(r.Topics, t)
		r.ResponsePartitionLimit = 100
		return r
	case 2:
		r := kmsg.NewPtrListOffsetsRequest()
		r.ReplicaID = -1
		rt := kmsg.NewListOffsetsRequestTopic()
		rt.Topic = "t0"
		rp := kmsg.NewListOffsetsRequestTopicPartition()
		rp.Partition, rp.Timestamp, rp.CurrentLeaderEpoch = 0, -1, -1
		rt.Partitions = append(rt.Partitions, rp)
		r.Topics = append(r.Topics, rt)
		return r
	case 19:
		r := kmsg.NewPtrCreateTopicsRequest()
		r.TimeoutMillis = 1000
		t := kmsg.NewCreateTopicsRequestTopic()
		t.Topic, t.NumPartitions, t.ReplicationFactor = "new-"+marker, 1, 1
		r.Topics = append(r.Topics, t)
		return r
	case 37:
		r := kmsg.NewPtrCreatePartitionsRequest()
		r.TimeoutMillis = 1000
		t := kmsg.NewCreatePartitionsRequestTopic()
		t.Topic, t.Count = "t1", 3
		r.Topics = append(r.Topics, t)
		return r
	case 20:
		r := kmsg.NewPtrDeleteTopicsRequest()
		r.TimeoutMillis = 1000
		r.TopicNames = []string{"never-" + marker}
		t := kmsg.NewDeleteTopicsRequestTopic()
		t.Topic = kmsg.StringPtr("never-" + marker)
		r.Topics = append(r.Topics, t)
		return r
	}
	return nil
}

func scenVersions(s *Sim) {
	p := s.P
	nb := int(p.Knob("nbroker", 2))
	s.StartCluster(nb, kfake.SeedTopics(2, "t0", "t1"))
	vs := &verState{s: s, epoch: map[int32]int{}, adv: map[*Conn]map[int16][2]int16{}}
	vs.umax = versionsByName(p.Knob("user_max", 1))
	if vs.umax == nil {
		vs.umax = kversion.Stable() // the client's default
	}
	vs.umin = versionsByName(p.Knob("user_min", 0))
	// per-key adjustments of the user's bounds
	for i := int64(0); i < p.Knob("user_tweaks", 0); i++ {
		x := mix64(p.Seed ^ uint64(i+1)*0x2545f4914f6cdd1d)
		key := versionHarnessKeys[x%uint64(len(versionHarnessKeys))]
		if req := kmsg.RequestForKey(key); req != nil {
			v := int16(mix64(x) % uint64(req.MaxVersion()+1))
			if mix64(x+7)%3 == 0 && vs.umin != nil {
				vs.umin.SetMaxKeyVersion(key, v)
			} else {
				vs.umax.SetMaxKeyVersion(key, v)
			}
		}
	}
	s.Mutate = vs.rewrite
	harness := map[int16]bool{}
	for _, k := range versionHarnessKeys {
		harness[k] = true
	}
	s.OnReq = append(s.OnReq, func(r *WireReq) {
		if r.Key == 18 || r.Conn.Client == "admin" {
			return
		}
		s.Count("frames_judged", 1)
		vs.mu.Lock()
		adv, seen := vs.adv[r.Conn]
		vs.mu.Unlock()
		if !seen {
			s.Violf("C21/version/before-apiversions", "%s wrote key %d v%d on a connection on which no ApiVersions response has been delivered", r.Conn.Name, r.Key, r.Ver)
			return
		}
		rg, has := adv[r.Key]
		if !has {
			s.Violf("C21/version/unadvertised-key", "%s wrote key %d (v%d), which the broker did not advertise on this connection", r.Conn.Name, r.Key, r.Ver)
			return
		}
		if r.Ver > rg[1] {
			s.Violf("C21/version/above-broker-max", "%s wrote key %d v%d, the broker advertised max v%d on this connection", r.Conn.Name, r.Key, r.Ver, rg[1])
		}
		if r.Ver < rg[0] {
			s.Violf("C21/version/below-broker-min", "%s wrote key %d v%d, the broker advertised min v%d on this connection", r.Conn.Name, r.Key, r.Ver, rg[0])
		}
		if um, has := lookup(vs.umax, r.Key); !has {
			s.Violf("C21/version/key-not-in-user-max", "%s wrote key %d v%d, which the user's MaxVersions does not contain", r.Conn.Name, r.Key, r.Ver)
		} else if r.Ver > um {
			s.Violf("C21/version/above-user-max", "%s wrote key %d v%d, the user's MaxVersions allows v%d", r.Conn.Name, r.Key, r.Ver, um)
		}
		if um, has := lookup(vs.umin, r.Key); has && r.Ver < um {
			s.Violf("C21/version/below-user-min", "%s wrote key %d v%d, the user's MinVersions demands v%d", r.Conn.Name, r.Key, r.Ver, um)
		}
		if harness[r.Key] && r.Conn.Client == "v0" {
			want, ok, why := vs.allowed(r.Conn, r.Key)
			switch {
			case !ok:
				s.Violf("C21/version/written-with-empty-range", "%s wrote key %d v%d although no version satisfies all bounds (%s)", r.Conn.Name, r.Key, r.Ver, why)
			case r.Ver != want:
				s.Violf("C21/version/not-highest", "%s wrote key %d v%d; the highest version within the client's, the advertised (v%d-v%d) and the user's bounds is v%d", r.Conn.Name, r.Key, r.Ver, rg[0], rg[1], want)
			default:
				s.Count("harness_frames_exact", 1)
			}
		}
	})

	opts := []kgo.Opt{kgo.MaxVersions(vs.umax), kgo.RequestRetries(2)}
	if vs.umin != nil {
		opts = append(opts, kgo.MinVersions(vs.umin))
	}
	cl, err := kgo.NewClient(append(s.BaseOpts("v0"), opts...)...)
	if err != nil {
		s.Probe("config_rejected")
		s.Logf("NewClient: %v", err)
		s.Count("nontrivial", 1)
		return
	}
	s.Adopt("v0", cl)
	// a producing and consuming client under the same bounds exercises the
	// client's own requests (bounds only)
	var w *kgo.Client
	if p.Knob("worker", 1) != 0 {
		w, err = kgo.NewClient(append(s.BaseOpts("w0"), append(opts, kgo.ConsumerGroup("vg"), kgo.ConsumeTopics("t0"), kgo.DefaultProduceTopic("t0"),
			kgo.FetchMaxWait(300*time.Millisecond), kgo.RecordDeliveryTimeout(5*time.Second))...)...)
		if err == nil {
			s.Adopt("w0", w)
			s.Go(func() {
				for i := 0; i < int(p.Knob("worker_records", 20)); i++ {
					w.Produce(context.Background(), &kgo.Record{Value: []byte(fmt.Sprintf("v%d", i))}, func(*kgo.Record, error) {})
					time.Sleep(50 * time.Millisecond)
				}
			})
			s.Go(func() {
				dl := time.Now().Add(20 * time.Second)
				for time.Now().Before(dl) {
					ctx, cancel := context.WithTimeout(context.Background(), time.Second)
					fs := w.PollFetches(ctx)
					cancel()
					if fs.IsClientClosed() {
						return
					}
				}
			})
		}
	}
	for _, ev := range p.Events {
		ev := ev
		if ev.Kind != "reversion" {
			continue
		}
		s.AtDriver(time.Duration(ev.AtMs)*time.Millisecond, func() {
			b := int32(ev.A) % int32(nb)
			vs.mu.Lock()
			vs.epoch[b]++
			vs.mu.Unlock()
			n := 0
			for _, c := range s.conns() {
				if c.Broker == b && !c.dead.Load() && c.Client != "admin" {
					c.kill()
					n++
				}
			}
			s.Count("env.broker_restarted_with_other_versions", 1)
			s.Logf("ENV broker %d restarts with other version ranges (%d connections reset)", b, n)
		})
	}
	s.ScheduleTimedFaults()
	for _, a := range p.Actors {
		a := a
		s.Go(func() {
			for i, op := range a.Ops {
				switch op.Kind {
				case "sleep":
					time.Sleep(time.Duration(op.A) * time.Millisecond)
				case "req":
					key := versionHarnessKeys[int(op.A)%len(versionHarnessKeys)]
					req := harnessKeyReq(key, fmt.Sprintf("%s-%d", a.Name, i))
					if req == nil {
						continue
					}
					ctx, cancel := context.WithTimeout(context.Background(), 20*time.Second)
					b := int32(op.B) % int32(nb)
					vs.mu.Lock()
					ep0 := vs.epoch[b]
					vs.mu.Unlock()
					var err error
					if op.C != 0 {
						_, err = cl.Broker(int(b)).Request(ctx, req)
					} else {
						_, err = cl.Request(ctx, req)
					}
					cancel()
					s.Count("harness_calls", 1)
					if err != nil {
						s.Count("harness_calls_error", 1)
					}
					// a call to one broker whose ranges did not change during
					// the call and leave no version must fail
					if op.C != 0 && err == nil {
						vs.mu.Lock()
						ep1 := vs.epoch[b]
						var last *Conn
						for c := range vs.adv {
							if c.Client == "v0" && c.Broker == b && (last == nil || c.ID > last.ID) {
								last = c
							}
						}
						vs.mu.Unlock()
						if ep0 == ep1 && last != nil {
							if _, ok, why := vs.allowed(last, key); !ok {
								s.Violf("C21/call/succeeded-with-empty-range", "request key %d to broker %d succeeded although no version satisfies all bounds (%s)", key, b, why)
							}
						}
					}
				}
			}
		})
	}
	s.WaitActors(time.Duration(p.Knob("fault_phase_ms", 40000)) * time.Millisecond)
	s.Heal()
	if !s.WaitActors(3 * time.Minute) {
		s.Violf("C21/hang", "request calls have not returned 3m after heal\n%s", goroutineDump("kgo"))
	}
	s.Count("nontrivial", 1)
}

// capProduceVersions makes the brokers of a cluster advertise different
// maximum Produce versions (a rolling upgrade): broker b advertises
// caps[b % len(caps)] (0 = unchanged). kfake serves every version of its own
// range, so the narrowed advertisement is honoured end to end.
func capProduceVersions(s *Sim, caps []int16) {
	s.Mutate = func(c *Conn, ri *reqInfo, data []byte) ([][]byte, bool) {
		if ri.key != 18 || len(caps) == 0 {
			return nil, false
		}
		cap := caps[int(c.Broker)%len(caps)]
		if cap <= 0 {
			return nil, false
		}
		resp, ok := decodeResp(18, ri.ver, data).(*kmsg.ApiVersionsResponse)
		if !ok || resp.ErrorCode != 0 {
			return nil, false
		}
		for i := range resp.ApiKeys {
			if resp.ApiKeys[i].ApiKey == 0 && resp.ApiKeys[i].MaxVersion > cap && resp.ApiKeys[i].MinVersion <= cap {
				resp.ApiKeys[i].MaxVersion = cap
				s.Count("adv.produce_capped", 1)
			}
		}
		return [][]byte{encodeResp(ri.corr, resp)}, false
	}
}
