package sim

import (
	"context"
	"fmt"
	"sync"
	"time"

	"github.com/twmb/franz-go/pkg/kfake"
	"github.com/twmb/franz-go/pkg/kgo"
	"github.com/twmb/franz-go/pkg/kmsg"
)

func init() { Scenarios["startoffset"] = scenStartOffset }

func startSpec(s *Sim) (kgo.Offset, string) {
	p := s.P
	o := kgo.NewOffset()
	x, r, ms := p.Knob("start_at", 0), p.Knob("start_rel", 0), p.Knob("start_ms", 0)
	switch p.Knob("start_kind", 1) {
	case 1:
		return o.At(x), fmt.Sprintf("At(%d)", x)
	case 2:
		return o.At(x).Relative(r), fmt.Sprintf("At(%d).Relative(%d)", x, r)
	case 3:
		return o.AtStart().Relative(r), fmt.Sprintf("AtStart().Relative(%d)", r)
	case 4:
		return o.AtEnd().Relative(-r), fmt.Sprintf("AtEnd().Relative(%d)", -r)
	case 5:
		return o.AfterMilli(ms), fmt.Sprintf("AfterMilli(%d)", ms)
	case 6:
		return o.AtStart(), "AtStart()"
	case 7:
		return o.AtEnd(), "AtEnd()"
	}
	return o.AtStart(), "AtStart()"
}

// refStart computes the documented start position on the reference log.
func refStart(s *Sim, l *RefLog) int64 {
	p := s.P
	end := l.HWM
	if p.Knob("read_committed", 0) != 0 {
		end = l.LSO
	}
	clamp := func(v int64) int64 {
		if v < l.LogStart {
			return l.LogStart
		}
		if v > end {
			return end
		}
		return v
	}
	x, r, ms := p.Knob("start_at", 0), p.Knob("start_rel", 0), p.Knob("start_ms", 0)
	// At(-1) and At(-2) are the documented aliases of AtEnd and AtStart
	base := x
	if x == -1 {
		base = end
	} else if x <= -2 {
		base = l.LogStart
	}
	switch p.Knob("start_kind", 1) {
	case 1:
		return clamp(base)
	case 2:
		return clamp(base + r)
	case 3:
		return clamp(l.LogStart + r)
	case 4:
		return clamp(end - r)
	case 5:
		for _, b := range l.Batches {
			for _, rec := range b.Records {
				if rec.Offset >= l.LogStart && rec.Offset < end && rec.Timestamp >= ms {
					return rec.Offset
				}
			}
		}
		return end
	case 6:
		return l.LogStart
	case 7:
		return end
	}
	return l.LogStart
}

// batchTimesDecrease reports whether the per-batch max timestamps of the log
// go backwards somewhere (user CreateTime stamps, or transaction markers
// stamped with the broker's clock between data batches with older stamps).
func batchTimesDecrease(l *RefLog) bool {
	max := int64(-1 << 62)
	for _, b := range l.Batches {
		if b.MaxTimestamp < max {
			return true
		}
		max = b.MaxTimestamp
	}
	return false
}

func scenStartOffset(s *Sim) {
	p := s.P
	nb := int(p.Knob("nbroker", 1))
	nparts := int32(p.Knob("nparts", 2))
	s.StartCluster(nb, kfake.SeedTopics(nparts, "t0"))
	st := &consState{s: s, got: map[string][]*crec{}, pollSeq: map[string]uint64{}, selEv: map[string][]selEvent{}, fbuf: map[*kgo.Record]int{}, funbuf: map[*kgo.Record]int{},
		stopCtl: make(chan struct{}), txnOf: map[string]*txnInfo{}, produced: map[string]bool{}}
	rc := p.Knob("read_committed", 0) != 0

	// 1. build the logs (no faults)
	var wg sync.WaitGroup
	for ai, a := range p.Actors {
		ai, a := ai, a
		var cl *kgo.Client
		txn := a.Client[0] == 'x'
		if txn {
			cl = s.Client(a.Client, kgo.RecordPartitioner(kgo.ManualPartitioner()), kgo.TransactionalID("txn-"+a.Client),
				kgo.TransactionTimeout(time.Duration(p.Knob("txn_timeout_ms", 4000))*time.Millisecond), kgo.ProducerBatchMaxBytes(int32(p.Knob("batch_max_bytes", 1000012))))
		} else {
			cl = s.Client(a.Client, kgo.RecordPartitioner(kgo.ManualPartitioner()), kgo.ProducerBatchMaxBytes(int32(p.Knob("batch_max_bytes", 1000012))),
				kgo.ProducerLinger(time.Duration(p.Knob("linger_ms", 0))*time.Millisecond))
		}
		// the builders run one after the other so that the plan controls
		// the order (and the timestamps) of the log
		wg.Add(1)
		go func() { defer wg.Done(); st.produceActor(cl, a.Client, ai, a, txn) }()
		wg.Wait()
	}
	admin := s.Raw("admin")
	defer admin.Close()
	// move the log start
	for q := int32(0); q < nparts; q++ {
		del := p.Knob(fmt.Sprintf("del_p%d", q), 0)
		if del <= 0 {
			continue
		}
		leaders, err := admin.Leaders("t0")
		if err != nil {
			s.OutOfScope("setup: metadata failed")
			return
		}
		req := kmsg.NewPtrDeleteRecordsRequest()
		rt := kmsg.NewDeleteRecordsRequestTopic()
		rt.Topic = "t0"
		rp := kmsg.NewDeleteRecordsRequestTopicPartition()
		rp.Partition = q
		rp.Offset = del
		rt.Partitions = append(rt.Partitions, rp)
		req.Topics = append(req.Topics, rt)
		req.TimeoutMillis = 5000
		if _, err := admin.Do(leaders[q], req); err == nil {
			s.Count("env.delete_records", 1)
		}
	}
	// reference logs before the consumer starts
	before := map[int32]*RefLog{}
	for q := int32(0); q < nparts; q++ {
		l, err := admin.ReadLog("t0", q)
		if err != nil {
			s.OutOfScope("setup: cannot read log")
			return
		}
		before[q] = l
	}
	want := map[int32]int64{}
	for q, l := range before {
		want[q] = refStart(s, l)
	}
	spec, specStr := startSpec(s)
	s.Count("nontrivial", 1)

	// 2. the consumer resolves its start position while ListOffsets faults
	// and a leader move may hit; the log is static meanwhile.
	for _, ev := range p.Events {
		ev := ev
		s.At(s.Now()+time.Duration(ev.AtMs)*time.Millisecond, func() { produceEnvEvent(s, nil, ev, nb, nparts) })
	}
	opts := []kgo.Opt{
		kgo.FetchMaxWait(time.Duration(p.Knob("fetch_max_wait_ms", 300)) * time.Millisecond),
		kgo.FetchMaxBytes(int32(p.Knob("fetch_max_bytes", 50<<20))),
	}
	if rc {
		opts = append(opts, kgo.FetchIsolationLevel(kgo.ReadCommitted()))
	}
	switch p.Knob("start_opt", 0) {
	case 0:
		opts = append(opts, kgo.ConsumeTopics("t0"), kgo.ConsumeResetOffset(spec))
	case 1:
		opts = append(opts, kgo.ConsumeTopics("t0"), kgo.ConsumeStartOffset(spec), kgo.ConsumeResetOffset(kgo.NewOffset().AtStart()))
	case 2:
		m := map[int32]kgo.Offset{}
		for q := int32(0); q < nparts; q++ {
			m[q] = spec
		}
		opts = append(opts, kgo.ConsumePartitions(map[string]map[int32]kgo.Offset{"t0": m}))
	}
	first := map[int32]*kgo.Record{}
	var fmu sync.Mutex
	// a partition appears in a Fetch request of the consumer, at a position
	// inside the log, once its start position is resolved
	resolved := map[int32]bool{}
	s.OnReq = append(s.OnReq, func(r *WireReq) {
		fr, ok := r.Req.(*kmsg.FetchRequest)
		if !ok || r.ClientID != "c0" {
			return
		}
		fmu.Lock()
		defer fmu.Unlock()
		for i := range fr.Topics {
			if s.reqTopic(fr.Topics[i].Topic, fr.Topics[i].TopicID) != "t0" {
				continue
			}
			for j := range fr.Topics[i].Partitions {
				// (a position outside the log is answered OFFSET_OUT_OF_RANGE
				// and resolved again: not resolved yet)
				fp := &fr.Topics[i].Partitions[j]
				if b := before[fp.Partition]; b != nil && fp.FetchOffset >= b.LogStart && fp.FetchOffset <= b.HWM {
					resolved[fp.Partition] = true
				}
			}
		}
	})
	cons := s.Client("c0", opts...)
	stop := make(chan struct{})
	var pw sync.WaitGroup
	pw.Add(1)
	go func() {
		defer pw.Done()
		for {
			select {
			case <-stop:
				return
			default:
			}
			ctx, cancel := context.WithTimeout(context.Background(), time.Second)
			fs := cons.PollFetches(ctx)
			cancel()
			if fs.IsClientClosed() {
				return
			}
			fs.EachRecord(func(r *kgo.Record) {
				fmu.Lock()
				if first[r.Partition] == nil {
					first[r.Partition] = r
				}
				fmu.Unlock()
			})
		}
	}()
	time.Sleep(time.Duration(p.Knob("resolve_ms", 6000)) * time.Millisecond)
	s.Heal()
	time.Sleep(4 * time.Second)
	// (slow plans -- request time-outs from latency alone -- may need longer:
	// the marker below must not be appended before every position is resolved)
	if !s.WaitFor(120*time.Second, 200*time.Millisecond, func() bool {
		fmu.Lock()
		defer fmu.Unlock()
		return len(resolved) == int(nparts)
	}) {
		s.OutOfScope("the consumer did not resolve every start position within two minutes of the last fault")
		close(stop)
		pw.Wait()
		return
	}
	// the log must not have changed while the consumer resolved
	for q := int32(0); q < nparts; q++ {
		l, err := admin.ReadLog("t0", q)
		if err != nil || l.HWM != before[q].HWM || l.LSO != before[q].LSO || l.LogStart != before[q].LogStart {
			s.OutOfScope("log changed while the consumer resolved its start offset")
			close(stop)
			pw.Wait()
			return
		}
	}

	// 3. append one marker per partition (and let open transactions time out)
	mk := s.Client("m0", kgo.RecordPartitioner(kgo.ManualPartitioner()))
	for q := int32(0); q < nparts; q++ {
		mk.ProduceSync(context.Background(), &kgo.Record{Topic: "t0", Partition: q, Value: []byte(fmt.Sprintf("marker-%d", q)), Timestamp: time.UnixMilli(1 << 40)})
	}
	// final reference (with markers, after open transactions were resolved)
	time.Sleep(time.Duration(p.Knob("txn_timeout_ms", 4000)+3000) * time.Millisecond)
	final := map[int32]*RefLog{}
	for q := int32(0); q < nparts; q++ {
		l, err := admin.ReadLog("t0", q)
		if err != nil {
			s.OutOfScope("cannot read final log")
			close(stop)
			return
		}
		final[q] = l
	}
	s.WaitFor(60*time.Second, 200*time.Millisecond, func() bool {
		fmu.Lock()
		defer fmu.Unlock()
		return len(first) == int(nparts)
	})
	close(stop)
	pw.Wait()
	fmu.Lock()
	defer fmu.Unlock()
	for q := int32(0); q < nparts; q++ {
		l := final[q]
		// the first returnable data record at or after the wanted position
		exp := int64(-1)
		for _, rec := range l.Records {
			if rec.Offset < want[q] {
				continue
			}
			if rc && !l.Committed[rec.Offset] {
				continue
			}
			exp = rec.Offset
			break
		}
		b := before[q]
		desc := fmt.Sprintf("%s on t0/%d (log start %d, end %d, lso %d, read_committed=%v): documented position %d", specStr, q, b.LogStart, b.HWM, b.LSO, rc, want[q])
		r := first[q]
		switch {
		case r == nil && exp >= 0:
			s.Violf("C40/nothing-returned", "%s, first returnable record %d, but nothing was returned for this partition", desc, exp)
		case r != nil && r.Offset != exp:
			cls := "C40/start/" + map[int64]string{1: "exact", 2: "exact-relative", 3: "start-relative", 4: "end-relative", 5: "after-milli", 6: "at-start", 7: "at-end"}[p.Knob("start_kind", 1)]
			if p.Knob("start_kind", 1) == 5 && (p.Knob("ts_non_monotonic", 0) != 0 || batchTimesDecrease(b)) {
				cls = "C40/start/after-milli-non-monotonic-log"
			}
			if k := p.Knob("start_kind", 1); (k == 1 || k == 2) && p.Knob("start_at", 0) >= 0 {
				end := b.HWM
				if rc {
					end = b.LSO
				}
				tgt := p.Knob("start_at", 0)
				if k == 2 {
					tgt += p.Knob("start_rel", 0)
				}
				if tgt > end {
					cls = "C40/start/exact-beyond-end"
				}
			}
			if r.Offset < exp {
				cls += "/too-early"
			} else {
				cls += "/too-late"
			}
			s.Violf(cls, "%s, first returnable record at or after it is %d, but the first record returned was %d", desc, exp, r.Offset)
		}
	}
}
