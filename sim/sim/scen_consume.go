package sim

import (
	"context"
	"fmt"
	"regexp"
	"sort"
	"strings"
	"sync"
	"time"

	"github.com/twmb/franz-go/pkg/kfake"
	"github.com/twmb/franz-go/pkg/kgo"
	"github.com/twmb/franz-go/pkg/kmsg"

	"verifsim/plan"
)

func init() { Scenarios["consume"] = scenConsume }

// crec is one record returned by a poll.
type crec struct {
	consumer  string
	topic     string
	part      int32
	off       int64
	val       string
	control   bool
	pollStart uint64
	retSeq    uint64
	at        time.Duration
}

type tpKey struct {
	t string
	p int32
}

// selection is the reference model of what a direct consumer selects.
type selEvent struct {
	seq  uint64 // event sequence at which the call returned
	kind string // add_topic, add_part, remove_part, purge
	t    string
	p    int32
}

type consState struct {
	s  *Sim
	mu sync.Mutex

	got        map[string][]*crec // consumer -> records in return order
	pollSeq    map[string]uint64
	selEv      map[string][]selEvent
	fbuf       map[*kgo.Record]int
	funbuf     map[*kgo.Record]int
	stopCtl    chan struct{}
	consumerCl *kgo.Client         // the first consumer, for environment events that wait on its view
	txnOf      map[string]*txnInfo // value -> transaction
	txns       []*txnInfo
	produced   map[string]bool
	prodErr    int
}

type txnInfo struct {
	id        int
	client    string
	endInvoke uint64 // seq at which EndTransaction was invoked (0 = never)
	commit    bool
	endErr    error
}

type fetchHooks struct{ st *consState }

func (h *fetchHooks) OnFetchRecordBuffered(r *kgo.Record) {
	h.st.mu.Lock()
	h.st.fbuf[r]++
	h.st.mu.Unlock()
	h.st.s.UserCode()
}

func (h *fetchHooks) OnFetchRecordUnbuffered(r *kgo.Record, polled bool) {
	h.st.mu.Lock()
	h.st.funbuf[r]++
	if h.st.funbuf[r] > 1 {
		h.st.s.Violf("C14/fetch-unbuffered/twice", "OnFetchRecordUnbuffered called %d times for %s/%d@%d", h.st.funbuf[r], r.Topic, r.Partition, r.Offset)
	}
	if h.st.fbuf[r] == 0 {
		h.st.s.Violf("C14/fetch-unbuffered/never-buffered", "OnFetchRecordUnbuffered for %s/%d@%d that was never passed to OnFetchRecordBuffered", r.Topic, r.Partition, r.Offset)
	}
	h.st.mu.Unlock()
	h.st.s.UserCode()
}

// OnFetchBatchRead runs inside the processing of a fetch response, after it
// arrived and before it is buffered: application code there takes time.
func (h *fetchHooks) OnFetchBatchRead(kgo.BrokerMetadata, string, int32, kgo.FetchBatchMetrics) {
	h.st.s.UserCode()
}

const selRegex = `^in-.*`
const selExclude = `^in-skip.*`

func (st *consState) consumerOpts(name string) []kgo.Opt {
	p := st.s.P
	opts := []kgo.Opt{
		kgo.WithHooks(&fetchHooks{st}),
		kgo.FetchMaxWait(time.Duration(p.Knob("fetch_max_wait_ms", 500)) * time.Millisecond),
		kgo.FetchMaxBytes(int32(p.Knob("fetch_max_bytes", 50<<20))),
		kgo.FetchMaxPartitionBytes(int32(p.Knob("fetch_max_part_bytes", 1<<20))),
		kgo.ConsumeResetOffset(kgo.NewOffset().AtStart()),
	}
	if p.Knob("no_sessions", 0) != 0 {
		opts = append(opts, kgo.DisableFetchSessions())
	}
	if v := p.Knob("max_conc_fetches", 0); v > 0 {
		opts = append(opts, kgo.MaxConcurrentFetches(int(v)))
	}
	if p.Knob("read_committed", 0) != 0 {
		opts = append(opts, kgo.FetchIsolationLevel(kgo.ReadCommitted()))
	}
	if p.Knob("keep_control", 0) != 0 {
		opts = append(opts, kgo.KeepControlRecords())
	}
	if p.Knob("rack", 0) != 0 {
		opts = append(opts, kgo.Rack("rack-a"))
	}
	if d := p.Knob("missing_deleted_ms", 0); d > 0 {
		opts = append(opts, kgo.ConsiderMissingTopicDeletedAfter(time.Duration(d)*time.Millisecond))
	}
	switch p.Knob("sel_mode", 0) {
	case 0: // topics
		var ts []string
		for i := int64(0); i < p.Knob("ntopics", 1); i++ {
			ts = append(ts, topicName(i))
		}
		opts = append(opts, kgo.ConsumeTopics(ts...))
	case 1: // regex with exclusion
		opts = append(opts, kgo.ConsumeRegex(), kgo.ConsumeTopics(selRegex), kgo.ConsumeExcludeTopics(selExclude))
	case 2: // explicit partitions: the even partitions of every seeded topic
		m := map[string]map[int32]kgo.Offset{}
		for i := int64(0); i < p.Knob("ntopics", 1); i++ {
			pm := map[int32]kgo.Offset{}
			for q := int32(0); q < int32(p.Knob("nparts", 1)); q += 2 {
				pm[q] = kgo.NewOffset().AtStart()
			}
			m[topicName(i)] = pm
		}
		if p.Knob("idle_exact", 0) != 0 {
			pm := map[int32]kgo.Offset{}
			for q := int32(0); q < int32(p.Knob("nparts", 1)); q++ {
				pm[q] = kgo.NewOffset().At(0)
			}
			m["idle"] = pm
		}
		opts = append(opts, kgo.ConsumePartitions(m))
	}
	return opts
}

func (st *consState) pollLoop(cl *kgo.Client, name string, a plan.Actor, stop <-chan struct{}) {
	s := st.s
	i := 0
	for {
		select {
		case <-stop:
			return
		default:
		}
		op := plan.Op{Kind: "poll", D: 1000}
		if len(a.Ops) > 0 {
			op = a.Ops[i%len(a.Ops)]
			i++
		}
		if op.Kind == "sleep" {
			time.Sleep(time.Duration(op.A) * time.Millisecond)
			continue
		}
		d := op.D
		if d <= 0 {
			d = 1000
		}
		ctx, cancel := context.WithTimeout(context.Background(), time.Duration(d)*time.Millisecond)
		start := s.Seq()
		st.mu.Lock()
		st.pollSeq[name] = start
		st.mu.Unlock()
		var fs kgo.Fetches
		if op.A > 0 {
			fs = cl.PollRecords(ctx, int(op.A))
		} else {
			fs = cl.PollFetches(ctx)
		}
		cancel()
		ret := s.Seq()
		if fs.IsClientClosed() {
			return
		}
		n := 0
		fs.EachRecord(func(r *kgo.Record) {
			n++
			c := &crec{consumer: name, topic: r.Topic, part: r.Partition, off: r.Offset, val: string(r.Value), control: r.Attrs.IsControl(), pollStart: start, retSeq: ret, at: s.Now()}
			st.mu.Lock()
			st.got[name] = append(st.got[name], c)
			st.mu.Unlock()
		})
		if op.A > 0 && n > int(op.A) {
			s.Violf("C04/pollrecords/too-many", "PollRecords(%d) returned %d records", op.A, n)
		}
	}
}

func (st *consState) ctlLoop(cl *kgo.Client, name string, a plan.Actor) {
	s := st.s
	for _, op := range a.Ops {
		select {
		case <-st.stopCtl:
			return
		default:
		}
		t := op.S
		switch op.Kind {
		case "sleep":
			time.Sleep(time.Duration(op.A) * time.Millisecond)
		case "pause_p":
			cl.PauseFetchPartitions(map[string][]int32{t: {int32(op.B)}})
			s.Probe("pause")
		case "resume_p":
			cl.ResumeFetchPartitions(map[string][]int32{t: {int32(op.B)}})
		case "pause_t":
			cl.PauseFetchTopics(t)
			s.Probe("pause")
		case "resume_t":
			cl.ResumeFetchTopics(t)
		case "add_topic":
			cl.AddConsumeTopics(t)
			st.sel(name, "add_topic", t, 0)
		case "add_part":
			cl.AddConsumePartitions(map[string]map[int32]kgo.Offset{t: {int32(op.B): kgo.NewOffset().AtStart()}})
			st.sel(name, "add_part", t, int32(op.B))
		case "remove_part":
			cl.RemoveConsumePartitions(map[string][]int32{t: {int32(op.B)}})
			st.sel(name, "remove_part", t, int32(op.B))
		case "purge":
			cl.PurgeTopicsFromConsuming(t)
			st.sel(name, "purge", t, 0)
		}
	}
}

func (st *consState) sel(consumer, kind, t string, p int32) {
	st.mu.Lock()
	st.selEv[consumer] = append(st.selEv[consumer], selEvent{seq: st.s.Seq(), kind: kind, t: t, p: p})
	st.mu.Unlock()
	st.s.Probe("sel_" + kind)
}

// producer actors ---------------------------------------------------------

func (st *consState) produceActor(cl *kgo.Client, client string, ai int, a plan.Actor, txn bool) {
	s := st.s
	var cur *txnInfo
	idx := 0
	var wg sync.WaitGroup
	for _, op := range a.Ops {
		switch op.Kind {
		case "sleep":
			time.Sleep(time.Duration(op.A) * time.Millisecond)
		case "begin":
			if cur != nil {
				continue
			}
			if err := cl.BeginTransaction(); err != nil {
				s.Logf("producer %s: BeginTransaction: %v", client, err)
				return
			}
			st.mu.Lock()
			cur = &txnInfo{id: len(st.txns), client: client}
			st.txns = append(st.txns, cur)
			st.mu.Unlock()
		case "produce":
			if txn && cur == nil {
				continue
			}
			val := fmt.Sprintf("%s/a%d/%d|", client, ai, idx)
			idx++
			if n := int(op.C) - len(val); n > 0 {
				val += strings.Repeat("y", n)
			}
			rec := &kgo.Record{Topic: op.S, Partition: int32(op.B), Value: []byte(val)}
			if op.D != 0 {
				rec.Timestamp = time.UnixMilli(op.D)
			}
			st.mu.Lock()
			st.produced[val] = true
			if cur != nil {
				st.txnOf[val] = cur
			}
			st.mu.Unlock()
			wg.Add(1)
			cl.Produce(context.Background(), rec, func(_ *kgo.Record, err error) {
				if err != nil {
					st.mu.Lock()
					st.prodErr++
					st.mu.Unlock()
				}
				wg.Done()
			})
		case "commit", "abort":
			if cur == nil {
				continue
			}
			commit := op.Kind == "commit"
			ctx, cancel := context.WithTimeout(context.Background(), 2*time.Minute)
			if err := cl.Flush(ctx); err != nil {
				commit = false
			}
			st.mu.Lock()
			cur.endInvoke = s.Seq()
			cur.commit = commit
			st.mu.Unlock()
			err := cl.EndTransaction(ctx, kgo.TransactionEndTry(commit))
			cancel()
			cur.endErr = err
			if err != nil {
				s.Logf("producer %s: EndTransaction(%v): %v", client, commit, err)
				s.Probe("endtxn_error")
				// documented recovery: abort; if that fails too, stop.
				ctx, cancel := context.WithTimeout(context.Background(), 2*time.Minute)
				err2 := cl.EndTransaction(ctx, kgo.TryAbort)
				cancel()
				if err2 != nil {
					return
				}
			}
			if commit {
				s.Probe("txn_commit")
			} else {
				s.Probe("txn_abort")
			}
			cur = nil
		case "txn_timeout":
			// leave the transaction open past the transaction timeout
			if cur == nil {
				continue
			}
			ctx, cancel := context.WithTimeout(context.Background(), 2*time.Minute)
			cl.Flush(ctx)
			cancel()
			time.Sleep(time.Duration(op.A) * time.Millisecond)
			s.Probe("txn_left_open")
		}
	}
	if !txn {
		ctx, cancel := context.WithTimeout(context.Background(), 5*time.Minute)
		cl.Flush(ctx)
		cancel()
	}
	// a transaction still open at the end stays open (the consumer must not
	// see it) until the transaction timeout aborts it.
}

func adminCreateTopic(s *Sim, name string, parts int32, internal bool) bool {
	req := kmsg.NewPtrCreateTopicsRequest()
	rt := kmsg.NewCreateTopicsRequestTopic()
	rt.Topic = name
	rt.NumPartitions = parts
	rt.ReplicationFactor = 1
	if internal {
		c := kmsg.NewCreateTopicsRequestTopicConfig()
		c.Name = "kfake.is_internal"
		c.Value = kmsg.StringPtr("true")
		rt.Configs = append(rt.Configs, c)
	}
	req.Topics = append(req.Topics, rt)
	req.TimeoutMillis = 5000
	c := s.Raw("envadmin")
	defer c.Close()
	resp, err := c.DoController(req)
	if err != nil {
		return false
	}
	for _, t := range resp.(*kmsg.CreateTopicsResponse).Topics {
		if t.ErrorCode != 0 {
			return false
		}
	}
	return true
}

func adminAddPartitions(s *Sim, name string, total int32) bool {
	req := kmsg.NewPtrCreatePartitionsRequest()
	rt := kmsg.NewCreatePartitionsRequestTopic()
	rt.Topic = name
	rt.Count = total
	req.Topics = append(req.Topics, rt)
	req.TimeoutMillis = 5000
	c := s.Raw("envadmin")
	defer c.Close()
	resp, err := c.DoController(req)
	if err != nil {
		return false
	}
	for _, t := range resp.(*kmsg.CreatePartitionsResponse).Topics {
		if t.ErrorCode != 0 {
			return false
		}
	}
	return true
}

func adminDeleteTopic(s *Sim, name string) bool {
	req := kmsg.NewPtrDeleteTopicsRequest()
	req.TopicNames = []string{name}
	rt := kmsg.NewDeleteTopicsRequestTopic()
	rt.Topic = kmsg.StringPtr(name)
	req.Topics = append(req.Topics, rt)
	req.TimeoutMillis = 5000
	c := s.Raw("envadmin")
	defer c.Close()
	resp, err := c.DoController(req)
	if err != nil {
		return false
	}
	for _, t := range resp.(*kmsg.DeleteTopicsResponse).Topics {
		if t.ErrorCode != 0 {
			return false
		}
	}
	return true
}

type topicState struct {
	parts      int32
	deleted    bool
	internal   bool
	recreated  bool   // deleted and created again under the same name
	deletedSeq uint64 // event number at which the deletion was acknowledged
}

func scenConsume(s *Sim) {
	p := s.P
	nb := int(p.Knob("nbroker", 3))
	nparts := int32(p.Knob("nparts", 3))
	ntopics := int(p.Knob("ntopics", 1))
	var topics []string
	for i := 0; i < ntopics; i++ {
		topics = append(topics, topicName(int64(i)))
	}
	if p.Knob("idle_exact", 0) != 0 {
		// a topic nothing is produced to, consumed from an exact offset: its
		// cursors stay idle and have never consumed a record of any epoch
		topics = append(topics, "idle")
	}
	kopts := []kfake.Opt{kfake.SeedTopics(nparts, topics...)}
	cfgs := map[string]string{}
	if v := p.Knob("session_slots", 0); v > 0 {
		cfgs["max.incremental.fetch.session.cache.slots"] = fmt.Sprint(v)
	}
	if len(cfgs) > 0 {
		kopts = append(kopts, kfake.BrokerConfigs(cfgs))
	}
	s.StartCluster(nb, kopts...)
	st := &consState{s: s, got: map[string][]*crec{}, pollSeq: map[string]uint64{}, selEv: map[string][]selEvent{}, fbuf: map[*kgo.Record]int{}, funbuf: map[*kgo.Record]int{},
		stopCtl: make(chan struct{}), txnOf: map[string]*txnInfo{}, produced: map[string]bool{}}

	var tmu sync.Mutex
	tstate := map[string]*topicState{}
	for _, t := range topics {
		tstate[t] = &topicState{parts: nparts}
	}

	// environment events
	recreateDone := map[string]chan struct{}{}
	for _, ev := range p.Events {
		if ev.Kind == "recreate_after_purge" {
			recreateDone[ev.S] = make(chan struct{})
		}
	}
	for _, ev := range p.Events {
		ev := ev
		s.At(time.Duration(ev.AtMs)*time.Millisecond, func() {
			switch ev.Kind {
			case "move", "shuffle":
				produceEnvEvent(s, nil, ev, nb, nparts)
			case "create_topic":
				if adminCreateTopic(s, ev.S, int32(ev.A), ev.B != 0) {
					tmu.Lock()
					old := tstate[ev.S]
					tstate[ev.S] = &topicState{parts: int32(ev.A), internal: ev.B != 0, recreated: old != nil}
					tmu.Unlock()
					if old != nil {
						s.Probe("topic_recreated")
					}
					s.Count("env.create_topic", 1)
					s.Logf("ENV create topic %s (%d partitions)", ev.S, ev.A)
				}
			case "recreate_after_purge":
				// The topic was deleted a moment ago. A client that still
				// holds cursors of the deleted incarnation when it sees the
				// new one stalls on UNKNOWN_TOPIC_ID by design (source.go,
				// cursor.topicID); the clause is about a topic created
				// after the client let go of the old one, so the harness
				// waits for that before it creates it again.
				defer close(recreateDone[ev.S])
				// the deletion itself may still be on its way (environment
				// events are requests too and can be slow)
				if !s.WaitFor(60*time.Second, 100*time.Millisecond, func() bool {
					tmu.Lock()
					defer tmu.Unlock()
					ts := tstate[ev.S]
					return ts != nil && ts.deleted
				}) {
					s.Logf("ENV topic %s not recreated: it was never deleted", ev.S)
					return
				}
				// a metadata response from before the deletion can still be
				// on its way to the client (at most one request time-out)
				time.Sleep(time.Duration(p.Knob("req_overhead_ms", 2000)+1000) * time.Millisecond)
				var cl *kgo.Client
				gone := s.WaitFor(90*time.Second, 200*time.Millisecond, func() bool {
					if cl == nil {
						st.mu.Lock()
						cl = st.consumerCl
						st.mu.Unlock()
						if cl == nil {
							return false
						}
					}
					for _, t := range cl.GetConsumeTopics() {
						if t == ev.S {
							return false
						}
					}
					return true
				})
				if !gone {
					s.Logf("ENV topic %s not recreated: the consumer still lists it", ev.S)
					return
				}
				time.Sleep(time.Duration(ev.B) * time.Millisecond)
				if adminCreateTopic(s, ev.S, int32(ev.A), false) {
					tmu.Lock()
					tstate[ev.S] = &topicState{parts: int32(ev.A), recreated: true}
					tmu.Unlock()
					s.Probe("topic_recreated")
					s.Logf("ENV create topic %s again (%d partitions)", ev.S, ev.A)
				}
			case "add_partitions":
				if adminAddPartitions(s, ev.S, int32(ev.A)) {
					tmu.Lock()
					if ts := tstate[ev.S]; ts != nil && int32(ev.A) > ts.parts {
						ts.parts = int32(ev.A)
					}
					tmu.Unlock()
					s.Count("env.add_partitions", 1)
					s.Logf("ENV grow topic %s to %d partitions", ev.S, ev.A)
				}
			case "delete_topic":
				if adminDeleteTopic(s, ev.S) {
					tmu.Lock()
					if ts := tstate[ev.S]; ts != nil {
						ts.deleted = true
						ts.deletedSeq = s.Seq()
					}
					tmu.Unlock()
					s.Count("env.delete_topic", 1)
					s.Logf("ENV delete topic %s", ev.S)
				}
			case "bump_epoch":
				// leadership is re-elected onto the same broker: the leader
				// epoch moves, the leader does not
				t := ev.S
				if t == "" {
					t = topicName(ev.A)
				}
				if cur := s.Cluster.LeaderFor(t, int32(ev.B)); cur >= 0 {
					if err := s.Cluster.MoveTopicPartition(t, int32(ev.B), cur); err == nil {
						s.Count("env.bump_epoch", 1)
						s.Logf("ENV epoch bump %s/%d (leader stays %d)", t, ev.B, cur)
					}
				}
			case "followers":
				var f []int32
				for i := 0; i < nb; i++ {
					f = append(f, int32(i))
				}
				s.Cluster.SetFollowers(topicName(ev.A), int32(ev.B), f)
				s.Count("env.set_followers", 1)
			}
		})
	}
	s.ScheduleTimedFaults()

	// clients and actors
	clients := map[string]*kgo.Client{}
	var consumers []string
	stopPoll := make(chan struct{})
	var producers, pollers, ctls sync.WaitGroup
	for ai, a := range p.Actors {
		ai, a := ai, a
		cl := clients[a.Client]
		if cl == nil {
			switch a.Client[0] {
			case 'c':
				cl = s.Client(a.Client, st.consumerOpts(a.Client)...)
				consumers = append(consumers, a.Client)
				st.mu.Lock()
				if st.consumerCl == nil {
					st.consumerCl = cl
				}
				st.mu.Unlock()
			case 'x':
				cl = s.Client(a.Client, kgo.RecordPartitioner(kgo.ManualPartitioner()), kgo.TransactionalID("txn-"+a.Client),
					kgo.TransactionTimeout(time.Duration(p.Knob("txn_timeout_ms", 60000))*time.Millisecond), kgo.UnknownTopicRetries(20),
					kgo.ProducerBatchMaxBytes(int32(p.Knob("batch_max_bytes", 1000012))))
			default:
				cl = s.Client(a.Client, kgo.RecordPartitioner(kgo.ManualPartitioner()), kgo.UnknownTopicRetries(20),
					kgo.ProducerBatchMaxBytes(int32(p.Knob("batch_max_bytes", 1000012))), kgo.ProducerLinger(time.Duration(p.Knob("linger_ms", 0))*time.Millisecond))
			}
			clients[a.Client] = cl
		}
		switch {
		case strings.HasPrefix(a.Name, "poll"):
			pollers.Add(1)
			go func() { defer pollers.Done(); st.pollLoop(cl, a.Client, a, stopPoll) }()
		case strings.HasPrefix(a.Name, "ctl"):
			ctls.Add(1)
			go func() { defer ctls.Done(); st.ctlLoop(cl, a.Client, a) }()
		default:
			producers.Add(1)
			go func() { defer producers.Done(); st.produceActor(cl, a.Client, ai, a, a.Client[0] == 'x') }()
		}
	}

	wait := func(wg *sync.WaitGroup, d time.Duration) bool {
		ch := make(chan struct{})
		go func() { wg.Wait(); close(ch) }()
		select {
		case <-ch:
			return true
		case <-time.After(d):
			return false
		}
	}
	faultPhase := time.Duration(p.Knob("fault_phase_ms", 30000)) * time.Millisecond
	prodDone := wait(&producers, faultPhase)
	time.Sleep(time.Duration(p.Knob("linger_after_ms", 2000)) * time.Millisecond)
	s.Heal()
	close(st.stopCtl)
	if !prodDone {
		prodDone = wait(&producers, 5*time.Minute)
	}
	if !wait(&ctls, 2*time.Minute) {
		s.Violf("C13/hang/consumer-control-call", "a pause/resume/add/remove/purge call did not return within 2m after heal\n%s", goroutineDump("kgo"))
	}
	if !prodDone {
		s.OutOfScope("producer actors did not finish (setup trouble, not judged)")
	}
	// resume everything so that liveness can be judged
	for _, c := range consumers {
		cl := clients[c]
		tmu.Lock()
		for t, ts := range tstate {
			cl.ResumeFetchTopics(t)
			var ps []int32
			for q := int32(0); q < ts.parts; q++ {
				ps = append(ps, q)
			}
			cl.ResumeFetchPartitions(map[string][]int32{t: ps})
		}
		tmu.Unlock()
	}
	// let open transactions time out if the plan wants it
	if d := p.Knob("after_heal_wait_ms", 0); d > 0 {
		time.Sleep(time.Duration(d) * time.Millisecond)
	}

	// a topic that is to come back has come back (or was given up on)
	for _, ch := range recreateDone {
		select {
		case <-ch:
		case <-time.After(3 * time.Minute):
		}
	}

	// ground truth
	admin := s.Raw("admin")
	logs := map[tpKey]*RefLog{}
	tmu.Lock()
	var tnames []string
	for t, ts := range tstate {
		if !ts.deleted {
			tnames = append(tnames, t)
		}
	}
	sort.Strings(tnames)
	tmu.Unlock()
	readAll := func() bool {
		for _, t := range tnames {
			tmu.Lock()
			np := tstate[t].parts
			tmu.Unlock()
			for q := int32(0); q < np; q++ {
				l, err := admin.ReadLog(t, q)
				if err != nil {
					s.Logf("ReadLog %s/%d: %v", t, q, err)
					return false
				}
				logs[tpKey{t, q}] = l
			}
		}
		return true
	}
	if !readAll() {
		s.OutOfScope("could not read the final logs")
		close(stopPoll)
		return
	}
	s.Count("nontrivial", 1)

	// liveness: after heal every selected partition is consumed to its end
	orc := &consOracle{s: s, st: st, logs: logs, tstate: tstate}
	bound := time.Duration(p.Knob("liveness_bound_ms", 180000)) * time.Millisecond
	complete := s.WaitFor(bound, 200*time.Millisecond, func() bool { return orc.missing(consumers, false) == "" })
	if !complete {
		if m := orc.missing(consumers, true); m != "" {
			s.Violf(orc.livenessClass(), "after heal and %v on a healthy cluster the consumer has not returned: %s", bound, m)
		}
	}
	if p.Prop == "C39" {
		// partitions whose position the application (or a topic deletion)
		// reset are exempt from the clause above; what they still owe is
		// that, being selected now, they are consumed from now on
		orc.tail(consumers, bound)
		if !readAll() {
			s.OutOfScope("could not read the final logs")
			close(stopPoll)
			return
		}
	}
	close(stopPoll)
	if !wait(&pollers, 2*time.Minute) {
		s.Violf("C13/hang/poll", "a poll did not return within 2m of its context ending\n%s", goroutineDump("kgo"))
	}
	for _, c := range consumers {
		cl := clients[c]
		if !closeBounded(s, cl, c) {
			return
		}
		if n, b := cl.BufferedFetchRecords(), cl.BufferedFetchBytes(); n != 0 || b != 0 {
			s.Violf("C14/fetch-gauge/nonzero-after-close", "BufferedFetchRecords=%d BufferedFetchBytes=%d after Close of %s", n, b, c)
		}
	}
	// hooks of records discarded by Close may be dispatched by a goroutine
	// that outlives the Close call by a moment
	time.Sleep(2 * time.Second)
	orc.judge(consumers)
	admin.Close()
}

// consOracle judges what the consumers returned against the final logs.
type consOracle struct {
	s      *Sim
	st     *consState
	logs   map[tpKey]*RefLog
	tstate map[string]*topicState
}

func (o *consOracle) livenessClass() string {
	switch o.s.P.Prop {
	case "C05":
		return "C05/liveness/committed-not-returned"
	case "C39":
		return "C39/liveness/selected-not-consumed"
	}
	return "C04/liveness/not-consumed"
}

var (
	reSel  = regexp.MustCompile(selRegex)
	reExcl = regexp.MustCompile(selExclude)
)

// selectedAt reports whether the consumer selects (t,p) given all selection
// calls that returned before seq.
func (o *consOracle) selectedAt(consumer string, t string, p int32, seq uint64) bool {
	pl := o.s.P
	sel := false
	switch pl.Knob("sel_mode", 0) {
	case 0:
		for i := int64(0); i < pl.Knob("ntopics", 1); i++ {
			if t == topicName(i) {
				sel = true
			}
		}
	case 1:
		sel = reSel.MatchString(t) && !reExcl.MatchString(t)
		if ts := o.tstate[t]; ts != nil && ts.internal {
			sel = false // internal topics only when named explicitly
		}
	case 2:
		for i := int64(0); i < pl.Knob("ntopics", 1); i++ {
			if t == topicName(i) && p%2 == 0 && p < int32(pl.Knob("nparts", 1)) {
				sel = true
			}
		}
	}
	for _, ev := range o.st.selEv[consumer] {
		if ev.seq > seq {
			break
		}
		switch ev.kind {
		case "add_topic":
			if ev.t == t {
				sel = true
			}
		case "add_part":
			if ev.t == t && ev.p == p {
				sel = true
			}
		case "remove_part":
			if ev.t == t && ev.p == p {
				sel = false
			}
		case "purge":
			if ev.t == t {
				sel = false
			}
		}
	}
	return sel
}

// expected returns the offsets the consumer must return for a partition, in
// order, given the reference log and isolation level.
func (o *consOracle) expected(l *RefLog) []int64 {
	rc := o.s.P.Knob("read_committed", 0) != 0
	keep := o.s.P.Knob("keep_control", 0) != 0
	var out []int64
	for _, b := range l.Batches {
		if b.Control() {
			if keep && (!rc || b.BaseOffset < l.LSO) {
				out = append(out, b.BaseOffset)
			}
			continue
		}
		for _, r := range b.Records {
			if rc {
				if !l.Committed[r.Offset] {
					continue
				}
			}
			out = append(out, r.Offset)
		}
	}
	return out
}

// missing describes what is still to be consumed ("" = nothing).
func (o *consOracle) missing(consumers []string, describe bool) string {
	o.st.mu.Lock()
	defer o.st.mu.Unlock()
	endSeq := ^uint64(0)
	for _, c := range consumers {
		have := map[tpKey]map[int64]bool{}
		for _, r := range o.st.got[c] {
			k := tpKey{r.topic, r.part}
			if have[k] == nil {
				have[k] = map[int64]bool{}
			}
			have[k][r.off] = true
		}
		for k, l := range o.logs {
			if !o.selectedAt(c, k.t, k.p, endSeq) || o.everRemoved(c, k) || o.recreated(k.t) {
				continue
			}
			for _, off := range o.expected(l) {
				if !have[k][off] {
					if describe {
						return fmt.Sprintf("%s: %s/%d offset %d (log [%d,%d) lso %d), returned so far %d offsets of this partition", c, k.t, k.p, off, l.LogStart, l.HWM, l.LSO, len(have[k]))
					}
					return "x"
				}
			}
		}
	}
	return ""
}

// purgedBefore: every purge of the topic by this consumer returned before
// the given event.
func (o *consOracle) purgedBefore(c, t string, seq uint64) bool {
	for _, ev := range o.st.selEv[c] {
		if ev.kind == "purge" && ev.t == t && ev.seq >= seq {
			return false
		}
	}
	return true
}

func (o *consOracle) recreated(t string) bool {
	ts := o.tstate[t]
	return ts != nil && ts.recreated
}

// selectedNow: does the consumer select the partition at the end of the
// run. For a regex consumer a purge is not a lasting deselection: "if you are
// consuming via regex and the topic still exists on the broker, this function
// will at most only temporarily remove the topic from the client and the
// topic will be re-discovered".
func (o *consOracle) selectedNow(c string, k tpKey) bool {
	if o.s.P.Knob("sel_mode", 0) != 1 {
		return o.selectedAt(c, k.t, k.p, ^uint64(0))
	}
	ts := o.tstate[k.t]
	return ts != nil && !ts.deleted && !ts.internal && reSel.MatchString(k.t) && !reExcl.MatchString(k.t)
}

// tail: every partition that is selected now but was removed, purged or
// recreated earlier gets fresh records, again and again, until the consumer
// has returned one of them: whatever position the re-selection started from,
// a consumer that consumes the partition at all returns a later record.
func (o *consOracle) tail(consumers []string, bound time.Duration) {
	s := o.s
	type target struct {
		c string
		k tpKey
	}
	var pending []target
	o.st.mu.Lock()
	var keys []tpKey
	for k := range o.logs {
		keys = append(keys, k)
	}
	sort.Slice(keys, func(i, j int) bool { return keys[i].t < keys[j].t || (keys[i].t == keys[j].t && keys[i].p < keys[j].p) })
	for _, c := range consumers {
		for _, k := range keys {
			if o.selectedNow(c, k) && (o.everRemoved(c, k) || o.recreated(k.t)) {
				pending = append(pending, target{c, k})
			}
		}
	}
	o.st.mu.Unlock()
	if len(pending) == 0 {
		return
	}
	s.Probe("c39_tail_targets")
	w := s.Client("tail", kgo.RecordPartitioner(kgo.ManualPartitioner()), kgo.UnknownTopicRetries(20))
	defer w.Close()
	vals := map[target]map[string]bool{}
	deadline := s.Now() + bound
	n := 0
	for len(pending) > 0 && s.Now() < deadline {
		sent := map[tpKey]string{}
		for _, tg := range pending {
			if _, ok := sent[tg.k]; ok {
				continue
			}
			n++
			v := fmt.Sprintf("tail-%d", n)
			ctx, cancel := context.WithTimeout(context.Background(), 10*time.Second)
			err := w.ProduceSync(ctx, &kgo.Record{Topic: tg.k.t, Partition: tg.k.p, Value: []byte(v)}).FirstErr()
			cancel()
			if err != nil {
				s.Logf("TAIL produce to %s/%d: %v", tg.k.t, tg.k.p, err)
				v = ""
			}
			sent[tg.k] = v
		}
		for _, tg := range pending {
			if v := sent[tg.k]; v != "" {
				if vals[tg] == nil {
					vals[tg] = map[string]bool{}
				}
				vals[tg][v] = true
			}
		}
		time.Sleep(2 * time.Second)
		o.st.mu.Lock()
		var still []target
		for _, tg := range pending {
			done := false
			for _, r := range o.st.got[tg.c] {
				if r.topic == tg.k.t && r.part == tg.k.p && vals[tg][r.val] {
					done = true
					break
				}
			}
			if !done {
				still = append(still, tg)
			}
		}
		o.st.mu.Unlock()
		pending = still
	}
	for _, tg := range pending {
		if len(vals[tg]) == 0 {
			continue // nothing could be produced to it
		}
		s.Violf("C39/liveness/reselected-not-consumed", "%s selects %s/%d (removed, purged or recreated earlier, selected again now) but returned none of the %d records produced to it over %v on a healthy cluster", tg.c, tg.k.t, tg.k.p, len(vals[tg]), bound)
		return
	}
	s.Probe("c39_tail_consumed")
}

// everRemoved: partitions that were removed/purged and possibly re-added are
// exempt from completeness (their position was reset by the application).
func (o *consOracle) everRemoved(c string, k tpKey) bool {
	for _, ev := range o.st.selEv[c] {
		if (ev.kind == "remove_part" && ev.t == k.t && ev.p == k.p) || (ev.kind == "purge" && ev.t == k.t) {
			return true
		}
	}
	return false
}

func (o *consOracle) judge(consumers []string) {
	s := o.s
	st := o.st
	st.mu.Lock()
	defer st.mu.Unlock()
	rc := s.P.Knob("read_committed", 0) != 0
	keep := s.P.Knob("keep_control", 0) != 0
	selMode := s.P.Knob("sel_mode", 0)
	for _, c := range consumers {
		last := map[tpKey]int64{}
		seen := map[tpKey]map[int64]int{}
		for _, r := range st.got[c] {
			k := tpKey{r.topic, r.part}
			l := o.logs[k]
			s.Count("recs.consumed", 1)
			// --- C39: selection
			if !o.selectedAt(c, r.topic, r.part, r.pollStart) {
				// selected at some later point before the poll returned?
				if !o.selectedAt(c, r.topic, r.part, r.retSeq) {
					purgedRegexStillExists := false
					if selMode == 1 {
						if ts := o.tstate[r.topic]; ts != nil && (!ts.deleted || o.purgedBefore(c, r.topic, ts.deletedSeq)) && reSel.MatchString(r.topic) && !reExcl.MatchString(r.topic) {
							// documented: a purged topic that still exists is rediscovered by a regex consumer
							// (also one that existed for a while after the purge and was deleted later)
							purgedRegexStillExists = true
						}
					}
					if !purgedRegexStillExists {
						s.Violf("C39/unselected-record", "%s returned %s/%d@%d which it does not select (poll started at event %d)", c, r.topic, r.part, r.off, r.pollStart)
					}
				}
			}
			if l == nil || o.recreated(r.topic) {
				continue // topic deleted or unknown at the end, or the log of another incarnation: nothing to compare with
			}
			// --- C04: order and uniqueness
			removed := o.everRemoved(c, k)
			if prev, ok := last[k]; ok && r.off <= prev && !removed {
				if seen[k][r.off] > 0 {
					s.Violf("C04/duplicate", "%s returned %s/%d@%d twice (second time at t=%v)", c, r.topic, r.part, r.off, r.at)
				} else {
					s.Violf("C04/order", "%s returned %s/%d@%d after offset %d", c, r.topic, r.part, r.off, prev)
				}
			}
			last[k] = r.off
			if seen[k] == nil {
				seen[k] = map[int64]int{}
			}
			seen[k][r.off]++
			// --- C05: visibility
			isCtl := l.IsControl[r.off]
			if isCtl != r.control {
				s.Violf("C05/control-flag", "%s returned %s/%d@%d with control=%v, the log says control=%v", c, r.topic, r.part, r.off, r.control, isCtl)
			}
			if isCtl {
				if !keep {
					s.Violf("C05/control-record-returned", "%s returned control record %s/%d@%d without KeepControlRecords", c, r.topic, r.part, r.off)
				}
				continue
			}
			if b := l.BatchOf[r.off]; b == nil {
				s.Violf("C04/phantom", "%s returned %s/%d@%d which is not a data record of the log", c, r.topic, r.part, r.off)
				continue
			}
			if rc {
				switch {
				case l.Aborted[r.off]:
					s.Violf("C05/aborted-returned", "%s (read_committed) returned %s/%d@%d of an aborted transaction (value %.30q)", c, r.topic, r.part, r.off, r.val)
				case l.Open[r.off]:
					s.Violf("C05/open-returned", "%s (read_committed) returned %s/%d@%d of a transaction that is still open", c, r.topic, r.part, r.off)
				default:
					if ti := st.txnOf[r.val]; ti != nil && (ti.endInvoke == 0 || r.retSeq < ti.endInvoke) && ti.commit {
						s.Violf("C05/open-returned-early", "%s (read_committed) returned %s/%d@%d before its transaction's EndTransaction was even invoked", c, r.topic, r.part, r.off)
					}
				}
			}
		}
		// --- C04 gaps: between the first and the last returned offset of a
		// partition every expected offset must have been returned.
		for k, l := range o.logs {
			if o.everRemoved(c, k) || o.recreated(k.t) || len(seen[k]) == 0 {
				continue
			}
			exp := o.expected(l)
			first := int64(-1)
			for _, r := range st.got[c] {
				if r.topic == k.t && r.part == k.p {
					first = r.off
					break
				}
			}
			for _, off := range exp {
				if off < first || off > last[k] {
					continue
				}
				if seen[k][off] == 0 {
					cls := "C04/skipped"
					if rc && s.P.Prop == "C05" {
						cls = "C05/committed-skipped"
					}
					s.Violf(cls, "%s never returned %s/%d@%d although it returned offsets %d..%d around it", c, k.t, k.p, off, first, last[k])
					break
				}
			}
			if first > exp0(exp) && s.P.Knob("start_kind", 0) == 0 && selMode != 1 {
				s.Violf("C04/start-skipped", "%s started %s/%d at offset %d, the first expected offset is %d", c, k.t, k.p, first, exp0(exp))
			}
		}
	}
	// --- C14 fetch hooks
	bad := 0
	for r, n := range st.fbuf {
		if n != 1 || st.funbuf[r] != 1 {
			bad++
			if bad == 1 {
				s.Violf("C14/fetch-hooks/pairing", "record %s/%d@%d: OnFetchRecordBuffered x%d, OnFetchRecordUnbuffered x%d", r.Topic, r.Partition, r.Offset, n, st.funbuf[r])
			}
		}
	}
	s.Count("fetch_hook_records", int64(len(st.fbuf)))
}

func exp0(e []int64) int64 {
	if len(e) == 0 {
		return 1 << 62
	}
	return e[0]
}
