package sim

import (
	"context"
	"encoding/binary"
	"fmt"
	"io"
	"net"
	"time"

	"github.com/twmb/franz-go/pkg/kbin"
	"github.com/twmb/franz-go/pkg/kmsg"
)

// RawCli is the simulator's own minimal protocol client (no kgo): one
// request at a time per broker connection, through the simulated network.
type RawCli struct {
	s     *Sim
	name  string
	conns map[int32]net.Conn
	vers  map[int32]map[int16]int16
	corr  int32
}

func (s *Sim) Raw(name string) *RawCli {
	return &RawCli{s: s, name: name, conns: map[int32]net.Conn{}, vers: map[int32]map[int16]int16{}}
}

func (r *RawCli) Close() {
	for _, c := range r.conns {
		c.Close()
	}
	r.conns = map[int32]net.Conn{}
}

func (r *RawCli) conn(b int32) (net.Conn, error) {
	if c, ok := r.conns[b]; ok {
		return c, nil
	}
	c, err := r.s.Net.dial(context.Background(), r.name, fmt.Sprintf("127.0.0.1:%d", basePort+int(b)))
	if err != nil {
		return nil, err
	}
	r.conns[b] = c
	return c, nil
}

func (r *RawCli) roundTrip(b int32, req kmsg.Request) (kmsg.Response, error) {
	c, err := r.conn(b)
	if err != nil {
		return nil, err
	}
	r.corr++
	buf := []byte{0, 0, 0, 0}
	buf = kbin.AppendInt16(buf, req.Key())
	buf = kbin.AppendInt16(buf, req.GetVersion())
	buf = kbin.AppendInt32(buf, r.corr)
	buf = kbin.AppendNullableString(buf, &r.name)
	if req.IsFlexible() {
		buf = append(buf, 0)
	}
	buf = req.AppendTo(buf)
	binary.BigEndian.PutUint32(buf, uint32(len(buf)-4))
	c.SetReadDeadline(time.Now().Add(60 * time.Second))
	if _, err := c.Write(buf); err != nil {
		delete(r.conns, b)
		return nil, err
	}
	var sz [4]byte
	if _, err := io.ReadFull(c, sz[:]); err != nil {
		c.Close()
		delete(r.conns, b)
		return nil, err
	}
	body := make([]byte, binary.BigEndian.Uint32(sz[:]))
	if _, err := io.ReadFull(c, body); err != nil {
		c.Close()
		delete(r.conns, b)
		return nil, err
	}
	frame := append(sz[:], body...)
	if got := int32(binary.BigEndian.Uint32(body)); got != r.corr {
		return nil, fmt.Errorf("rawcli: correlation mismatch %d != %d", got, r.corr)
	}
	resp := decodeResp(req.Key(), req.GetVersion(), frame)
	if resp == nil {
		return nil, fmt.Errorf("rawcli: cannot decode response key=%d v=%d", req.Key(), req.GetVersion())
	}
	return resp, nil
}

// Do issues req to broker b at the highest version both sides support.
func (r *RawCli) Do(b int32, req kmsg.Request) (kmsg.Response, error) {
	if r.vers[b] == nil {
		av := kmsg.NewPtrApiVersionsRequest()
		av.SetVersion(3)
		av.ClientSoftwareName, av.ClientSoftwareVersion = "rawcli", "1"
		resp, err := r.roundTrip(b, av)
		if err != nil {
			return nil, err
		}
		m := map[int16]int16{}
		for _, k := range resp.(*kmsg.ApiVersionsResponse).ApiKeys {
			m[k.ApiKey] = k.MaxVersion
		}
		r.vers[b] = m
	}
	v := req.MaxVersion()
	if bm, ok := r.vers[b][req.Key()]; ok && bm < v {
		v = bm
	}
	req.SetVersion(v)
	return r.roundTrip(b, req)
}

// DoController sends an administrative request to the cluster's controller
// (CreateTopics, DeleteTopics and CreatePartitions are only served there).
func (r *RawCli) DoController(req kmsg.Request) (kmsg.Response, error) {
	mreq := kmsg.NewPtrMetadataRequest()
	mreq.Topics = []kmsg.MetadataRequestTopic{} // no topics
	resp, err := r.Do(0, mreq)
	if err != nil {
		return nil, err
	}
	ctl := resp.(*kmsg.MetadataResponse).ControllerID
	if ctl < 0 {
		ctl = 0
	}
	return r.Do(ctl, req)
}

// Leader asks broker 0 for the leader of a partition.
func (r *RawCli) Leaders(topic string) (map[int32]int32, error) {
	req := kmsg.NewPtrMetadataRequest()
	rt := kmsg.NewMetadataRequestTopic()
	rt.Topic = kmsg.StringPtr(topic)
	req.Topics = append(req.Topics, rt)
	resp, err := r.Do(0, req)
	if err != nil {
		return nil, err
	}
	out := map[int32]int32{}
	for _, t := range resp.(*kmsg.MetadataResponse).Topics {
		if t.ErrorCode != 0 {
			return nil, fmt.Errorf("metadata %s: error %d", topic, t.ErrorCode)
		}
		for _, p := range t.Partitions {
			out[p.Partition] = p.Leader
		}
	}
	return out, nil
}

func (r *RawCli) topicID(topic string) ([16]byte, error) {
	req := kmsg.NewPtrMetadataRequest()
	rt := kmsg.NewMetadataRequestTopic()
	rt.Topic = kmsg.StringPtr(topic)
	req.Topics = append(req.Topics, rt)
	resp, err := r.Do(0, req)
	if err != nil {
		return [16]byte{}, err
	}
	for _, t := range resp.(*kmsg.MetadataResponse).Topics {
		return t.TopicID, nil
	}
	return [16]byte{}, fmt.Errorf("no topic")
}

// ReadLog reads a whole partition with raw read_uncommitted fetches (no
// sessions) and decodes it with the reference decoder.
func (r *RawCli) ReadLog(topic string, partition int32) (*RefLog, error) {
	var lastErr error
	for attempt := 0; attempt < 20; attempt++ {
		l, err := r.readLogOnce(topic, partition)
		if err == nil {
			return l, nil
		}
		lastErr = err
		time.Sleep(200 * time.Millisecond)
	}
	return nil, lastErr
}

func (r *RawCli) readLogOnce(topic string, partition int32) (*RefLog, error) {
	leaders, err := r.Leaders(topic)
	if err != nil {
		return nil, err
	}
	leader, ok := leaders[partition]
	if !ok {
		return nil, fmt.Errorf("partition %s/%d unknown", topic, partition)
	}
	tid, err := r.topicID(topic)
	if err != nil {
		return nil, err
	}
	l := &RefLog{Topic: topic, Partition: partition, LogStart: -1}
	// log start
	{
		lo := kmsg.NewPtrListOffsetsRequest()
		lo.ReplicaID = -1
		lt := kmsg.NewListOffsetsRequestTopic()
		lt.Topic = topic
		lp := kmsg.NewListOffsetsRequestTopicPartition()
		lp.Partition = partition
		lp.Timestamp = -2
		lp.CurrentLeaderEpoch = -1
		lt.Partitions = append(lt.Partitions, lp)
		lo.Topics = append(lo.Topics, lt)
		resp, err := r.Do(leader, lo)
		if err != nil {
			return nil, err
		}
		rp := resp.(*kmsg.ListOffsetsResponse).Topics[0].Partitions[0]
		if rp.ErrorCode != 0 {
			return nil, fmt.Errorf("list offsets error %d", rp.ErrorCode)
		}
		l.LogStart = rp.Offset
	}
	off := l.LogStart
	for iter := 0; iter < 100000; iter++ {
		req := kmsg.NewPtrFetchRequest()
		req.ReplicaID = -1
		req.MaxWaitMillis = 0
		req.MinBytes = 0
		req.MaxBytes = 64 << 20
		req.IsolationLevel = 0
		req.SessionEpoch = -1
		ft := kmsg.NewFetchRequestTopic()
		ft.Topic = topic
		ft.TopicID = tid
		fp := kmsg.NewFetchRequestTopicPartition()
		fp.Partition = partition
		fp.FetchOffset = off
		fp.CurrentLeaderEpoch = -1
		fp.LastFetchedEpoch = -1
		fp.PartitionMaxBytes = 64 << 20
		ft.Partitions = append(ft.Partitions, fp)
		req.Topics = append(req.Topics, ft)
		resp, err := r.Do(leader, req)
		if err != nil {
			return nil, err
		}
		fr := resp.(*kmsg.FetchResponse)
		if fr.ErrorCode != 0 || len(fr.Topics) != 1 || len(fr.Topics[0].Partitions) != 1 {
			return nil, fmt.Errorf("fetch: top-level error %d / shape", fr.ErrorCode)
		}
		rp := fr.Topics[0].Partitions[0]
		if rp.ErrorCode != 0 {
			return nil, fmt.Errorf("fetch %s/%d@%d: error %d", topic, partition, off, rp.ErrorCode)
		}
		l.HWM, l.LSO = rp.HighWatermark, rp.LastStableOffset
		bs, err := RefDecodeBatches(rp.RecordBatches)
		if err != nil {
			return nil, fmt.Errorf("refdec %s/%d@%d: %v", topic, partition, off, err)
		}
		adv := false
		for _, b := range bs {
			if b.LastOffset() < off {
				continue
			}
			l.Batches = append(l.Batches, b)
			off = b.LastOffset() + 1
			adv = true
		}
		if off >= rp.HighWatermark {
			break
		}
		if !adv {
			return nil, fmt.Errorf("fetch %s/%d@%d: no progress below hwm %d", topic, partition, off, rp.HighWatermark)
		}
	}
	l.Resolve()
	return l, nil
}

// roundTripV issues req at the version already set on it (no negotiation).
func (r *RawCli) roundTripV(b int32, req kmsg.Request) (kmsg.Response, error) {
	return r.roundTrip(b, req)
}
