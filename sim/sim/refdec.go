package sim

import (
	"bytes"
	"compress/gzip"
	"encoding/binary"
	"errors"
	"fmt"
	"hash/crc32"
	"io"

	"github.com/klauspost/compress/snappy"
	"github.com/klauspost/compress/zstd"
	"github.com/pierrec/lz4/v4"
)

// Reference decoder of the Kafka record-batch format (magic 2), written from
// the protocol documentation; independent of kgo's and kmsg's batch code.

type RefHeader struct{ Key, Value []byte }

type RefRecord struct {
	Offset    int64
	Timestamp int64
	Key       []byte
	Value     []byte
	Headers   []RefHeader
	KeyNull   bool
	ValueNull bool
}

type RefBatch struct {
	BaseOffset      int64
	Length          int32
	LeaderEpoch     int32
	Magic           int8
	CRCOk           bool
	Attrs           int16
	LastOffsetDelta int32
	FirstTimestamp  int64
	MaxTimestamp    int64
	ProducerID      int64
	ProducerEpoch   int16
	BaseSequence    int32
	NumRecords      int32
	Records         []RefRecord
	RawLen          int // bytes of the whole batch incl. offset+length
	// control batches
	ControlType int16 // 0 abort, 1 commit (valid if Control)
}

func (b *RefBatch) Codec() int          { return int(b.Attrs & 7) }
func (b *RefBatch) Transactional() bool { return b.Attrs&0x10 != 0 }
func (b *RefBatch) Control() bool       { return b.Attrs&0x20 != 0 }
func (b *RefBatch) LastOffset() int64   { return b.BaseOffset + int64(b.LastOffsetDelta) }

var castagnoli = crc32.MakeTable(crc32.Castagnoli)

type rdr struct {
	b   []byte
	err error
}

func (r *rdr) need(n int) bool {
	if r.err != nil {
		return false
	}
	if len(r.b) < n {
		r.err = io.ErrUnexpectedEOF
		return false
	}
	return true
}
func (r *rdr) i8() int8 {
	if !r.need(1) {
		return 0
	}
	v := int8(r.b[0])
	r.b = r.b[1:]
	return v
}
func (r *rdr) i16() int16 {
	if !r.need(2) {
		return 0
	}
	v := int16(binary.BigEndian.Uint16(r.b))
	r.b = r.b[2:]
	return v
}
func (r *rdr) i32() int32 {
	if !r.need(4) {
		return 0
	}
	v := int32(binary.BigEndian.Uint32(r.b))
	r.b = r.b[4:]
	return v
}
func (r *rdr) i64() int64 {
	if !r.need(8) {
		return 0
	}
	v := int64(binary.BigEndian.Uint64(r.b))
	r.b = r.b[8:]
	return v
}
func (r *rdr) varlong() int64 {
	var x uint64
	var s uint
	for i := 0; ; i++ {
		if !r.need(1) {
			return 0
		}
		c := r.b[0]
		r.b = r.b[1:]
		x |= uint64(c&0x7f) << s
		if c < 0x80 {
			break
		}
		s += 7
		if i >= 9 {
			r.err = errors.New("varint too long")
			return 0
		}
	}
	return int64(x>>1) ^ -int64(x&1)
}
func (r *rdr) bytesN(n int64) ([]byte, bool) {
	if n < 0 {
		return nil, true
	}
	if !r.need(int(n)) {
		return nil, false
	}
	v := r.b[:n]
	r.b = r.b[n:]
	return v, false
}

func refDecompress(codec int, in []byte) ([]byte, error) {
	switch codec {
	case 0:
		return in, nil
	case 1:
		zr, err := gzip.NewReader(bytes.NewReader(in))
		if err != nil {
			return nil, err
		}
		return io.ReadAll(zr)
	case 2:
		// xerial framing?
		if len(in) > 16 && bytes.HasPrefix(in, []byte{0x82, 'S', 'N', 'A', 'P', 'P', 'Y', 0}) {
			var out []byte
			in = in[16:]
			for len(in) > 0 {
				if len(in) < 4 {
					return nil, io.ErrUnexpectedEOF
				}
				n := int(binary.BigEndian.Uint32(in))
				in = in[4:]
				if len(in) < n {
					return nil, io.ErrUnexpectedEOF
				}
				d, err := snappy.Decode(nil, in[:n])
				if err != nil {
					return nil, err
				}
				out = append(out, d...)
				in = in[n:]
			}
			return out, nil
		}
		return snappy.Decode(nil, in)
	case 3:
		return io.ReadAll(lz4.NewReader(bytes.NewReader(in)))
	case 4:
		zr, err := zstd.NewReader(bytes.NewReader(in))
		if err != nil {
			return nil, err
		}
		defer zr.Close()
		return io.ReadAll(zr)
	}
	return nil, fmt.Errorf("unknown codec %d", codec)
}

// RefDecodeBatches decodes a concatenation of record batches. A truncated
// trailing batch is ignored (as the protocol allows in fetch responses).
func RefDecodeBatches(in []byte) ([]*RefBatch, error) {
	var out []*RefBatch
	for len(in) >= 12 {
		base := int64(binary.BigEndian.Uint64(in))
		l := int32(binary.BigEndian.Uint32(in[8:]))
		if l < 0 {
			return out, fmt.Errorf("negative batch length %d", l)
		}
		if len(in) < 12+int(l) {
			return out, nil // truncated trailing batch
		}
		body := in[12 : 12+int(l)]
		in = in[12+int(l):]
		b := &RefBatch{BaseOffset: base, Length: l, RawLen: 12 + int(l)}
		r := &rdr{b: body}
		b.LeaderEpoch = r.i32()
		b.Magic = r.i8()
		if b.Magic != 2 {
			return out, fmt.Errorf("batch at offset %d has magic %d", base, b.Magic)
		}
		crc := uint32(r.i32())
		if r.err != nil {
			return out, r.err
		}
		b.CRCOk = crc32.Checksum(r.b, castagnoli) == crc
		b.Attrs = r.i16()
		b.LastOffsetDelta = r.i32()
		b.FirstTimestamp = r.i64()
		b.MaxTimestamp = r.i64()
		b.ProducerID = r.i64()
		b.ProducerEpoch = r.i16()
		b.BaseSequence = r.i32()
		b.NumRecords = r.i32()
		if r.err != nil {
			return out, r.err
		}
		payload, err := refDecompress(b.Codec(), r.b)
		if err != nil {
			return out, fmt.Errorf("batch at offset %d: decompress: %v", base, err)
		}
		rr := &rdr{b: payload}
		for i := int32(0); i < b.NumRecords; i++ {
			ln := rr.varlong()
			recb, _ := rr.bytesN(ln)
			if rr.err != nil {
				return out, fmt.Errorf("batch at offset %d: record %d: %v", base, i, rr.err)
			}
			q := &rdr{b: recb}
			q.i8() // attributes
			tsd := q.varlong()
			od := q.varlong()
			var rec RefRecord
			rec.Offset = base + od
			rec.Timestamp = b.FirstTimestamp + tsd
			kl := q.varlong()
			rec.Key, rec.KeyNull = q.bytesN(kl)
			vl := q.varlong()
			rec.Value, rec.ValueNull = q.bytesN(vl)
			nh := q.varlong()
			for h := int64(0); h < nh; h++ {
				var hd RefHeader
				hk := q.varlong()
				hd.Key, _ = q.bytesN(hk)
				hv := q.varlong()
				hd.Value, _ = q.bytesN(hv)
				rec.Headers = append(rec.Headers, hd)
			}
			if q.err != nil {
				return out, fmt.Errorf("batch at offset %d: record %d: %v", base, i, q.err)
			}
			if len(q.b) != 0 {
				return out, fmt.Errorf("batch at offset %d: record %d: %d trailing bytes", base, i, len(q.b))
			}
			b.Records = append(b.Records, rec)
		}
		if len(rr.b) != 0 {
			return out, fmt.Errorf("batch at offset %d: %d trailing payload bytes", base, len(rr.b))
		}
		if b.Control() && len(b.Records) > 0 && len(b.Records[0].Key) >= 4 {
			b.ControlType = int16(binary.BigEndian.Uint16(b.Records[0].Key[2:]))
		}
		out = append(out, b)
	}
	return out, nil
}

// RefLog is a partition's final content with the reference committed view.
type RefLog struct {
	Topic     string
	Partition int32
	LogStart  int64
	HWM       int64
	LSO       int64
	Batches   []*RefBatch
	// per data record
	Records   []RefRecord
	Committed map[int64]bool // offset -> visible under read_committed
	Aborted   map[int64]bool
	Open      map[int64]bool // belongs to a still-open transaction
	IsControl map[int64]bool
	BatchOf   map[int64]*RefBatch
}

// Resolve computes the read_committed view from the markers in the log.
func (l *RefLog) Resolve() {
	l.Committed, l.Aborted, l.Open, l.IsControl, l.BatchOf = map[int64]bool{}, map[int64]bool{}, map[int64]bool{}, map[int64]bool{}, map[int64]*RefBatch{}
	pending := map[int64][]int64{} // pid -> offsets of open txn
	for _, b := range l.Batches {
		if b.Control() {
			for o := b.BaseOffset; o <= b.LastOffset(); o++ {
				l.IsControl[o] = true
			}
			offs := pending[b.ProducerID]
			delete(pending, b.ProducerID)
			for _, o := range offs {
				if b.ControlType == 1 {
					l.Committed[o] = true
				} else {
					l.Aborted[o] = true
				}
			}
			continue
		}
		for _, r := range b.Records {
			l.Records = append(l.Records, r)
			l.BatchOf[r.Offset] = b
			if b.Transactional() {
				pending[b.ProducerID] = append(pending[b.ProducerID], r.Offset)
			} else {
				l.Committed[r.Offset] = true
			}
		}
	}
	for _, offs := range pending {
		for _, o := range offs {
			l.Open[o] = true
		}
	}
}
