package sim

import (
	"context"
	"fmt"
	"sort"
	"strings"
	"sync"
	"time"

	"github.com/twmb/franz-go/pkg/kfake"
	"github.com/twmb/franz-go/pkg/kgo"
	"github.com/twmb/franz-go/pkg/kmsg"

	"verifsim/plan"
)

func init() { Scenarios["share"] = scenShare }

// Scenario share (C12): 1-3 members of one share group poll a topic that a
// producer fills, acknowledge per record with a generated mix of accept /
// release / reject / renew / nothing (Record.Ack, MarkAcks), call FlushAcks,
// close and are replaced, while leaders move and connections are lost. The
// wire monitor follows every acquisition and every acknowledgement batch the
// broker processed; at the end, after the acquisition locks have run out, a
// drain member consumes what is left.
type shAcq struct {
	member   string
	delivery int16
	open     bool
	finals   int  // final outcomes (accept/release/reject) the broker applied to THIS acquisition
	final    int8 // last applied final type
	renewed  bool
	archived bool // accepted or rejected: must never be acquired again
}

type shPending struct {
	member string
	tp     string
	first  int64
	last   int64
	types  []int8
}

type shCb struct {
	seq uint64
	err bool
}

type shFlush struct{ inv, ret uint64 }

type shPolled struct {
	act      int64  // 1 accept / 3 reject set by the application itself (no renew before it)
	ackSeq   uint64 // event at which that call returned
	member   string
	tp       string
	off      int64
	val      string
	pollIdx  int
	appFinal bool // the application set a final status itself
	appRenew bool
	delivery int
	seq      uint64
}

type shareState struct {
	s   *Sim
	mu  sync.Mutex
	acq map[string]map[int64]*shAcq // tp -> offset -> current/last acquisition
	// requests carrying acknowledgements, by connection and correlation id
	pend map[string][]shPending
	// what the wire saw per (member, tp, offset): final types applied by the broker
	appliedBy map[string]map[int64][]int8
	polled    []*shPolled
	ackIssued map[string]uint64 // member|tp -> seq of the last ack call
	cbSeen    map[string]uint64 // member|tp -> seq of the last callback naming tp
	cbErr     map[string]int
	members   map[string]string // member id on the wire -> client name
	disturbed map[string]bool   // client names whose connections were killed / partitions moved
	accepted  map[string]map[int64]bool
	// accept/reject batches that reached the broker at all (it may have
	// applied them even if no response was ever written)
	maybeFinal map[string]map[int64]bool
	byKey      map[string]*shPolled // member|tp|offset -> latest poll of it
	// per member|tp|offset: how often the broker handed the record to the
	// member, and how many final outcomes of the member for it it applied
	acqCount   map[string]int
	finalCount map[string]int
	// what the application was told: every callback result per member|tp,
	// the successful FlushAcks per member, and the polls per tp|offset
	sentBy       map[string]map[int64][]int8 // member|tp -> offset -> acknowledgement types the member sent
	drainFetches map[int32]int // successful ShareFetch answers to the drain member, per broker
	cbLog        map[string][]shCb
	flushes      map[string][]shFlush
	byOff        map[string][]*shPolled
}

func (st *shareState) anyFault() bool {
	st.s.mu.Lock()
	defer st.s.mu.Unlock()
	for k, v := range st.s.stats {
		if (strings.HasPrefix(k, "fault.") || strings.HasPrefix(k, "env.")) && v > 0 {
			return true
		}
	}
	return false
}

func tpKeyStr(t string, p int32) string { return fmt.Sprintf("%s/%d", t, p) }

func (st *shareState) checkBatches(where, member, tp string, firsts, lasts []int64, types [][]int8) {
	s := st.s
	prev := int64(-1)
	for i := range firsts {
		if lasts[i] < firsts[i] {
			s.Violf("C12/batches/inverted", "%s from %s for %s: acknowledgement batch [%d,%d]", where, member, tp, firsts[i], lasts[i])
		}
		if firsts[i] <= prev {
			s.Violf("C12/batches/order", "%s from %s for %s: acknowledgement batch [%d,%d] follows a batch ending at %d (batches must ascend without overlap)", where, member, tp, firsts[i], lasts[i], prev)
		}
		prev = lasts[i]
		if n := len(types[i]); n != 1 && int64(n) != lasts[i]-firsts[i]+1 {
			s.Violf("C12/batches/types-length", "%s from %s for %s: batch [%d,%d] carries %d acknowledge types", where, member, tp, firsts[i], lasts[i], n)
		}
	}
}

func (st *shareState) onReq(r *WireReq) {
	s := st.s
	var member string
	var out []shPending
	add := func(topic string, part int32, firsts, lasts []int64, types [][]int8, where string) {
		if len(firsts) == 0 {
			return
		}
		tp := tpKeyStr(topic, part)
		st.checkBatches(where, r.Conn.Client, tp, firsts, lasts, types)
		for i := range firsts {
			out = append(out, shPending{member: r.Conn.Client, tp: tp, first: firsts[i], last: lasts[i], types: types[i]})
			// what the member sent, whatever the broker makes of it
			st.mu.Lock()
			k := r.Conn.Client + "|" + tp
			if st.sentBy[k] == nil {
				st.sentBy[k] = map[int64][]int8{}
			}
			for o := firsts[i]; o <= lasts[i] && o-firsts[i] < 10000; o++ {
				t := types[i][0]
				if int(o-firsts[i]) < len(types[i]) {
					t = types[i][o-firsts[i]]
				}
				st.sentBy[k][o] = append(st.sentBy[k][o], t)
			}
			st.mu.Unlock()
		}
	}
	switch q := r.Req.(type) {
	case *kmsg.ShareFetchRequest:
		if q.MemberID != nil {
			member = *q.MemberID
		}
		for _, t := range q.Topics {
			topic := s.reqTopic("", t.TopicID)
			for _, p := range t.Partitions {
				var f, l []int64
				var ty [][]int8
				for _, b := range p.AcknowledgementBatches {
					f, l, ty = append(f, b.FirstOffset), append(l, b.LastOffset), append(ty, b.AcknowledgeTypes)
				}
				add(topic, p.Partition, f, l, ty, "ShareFetch")
			}
		}
	case *kmsg.ShareAcknowledgeRequest:
		if q.MemberID != nil {
			member = *q.MemberID
		}
		for _, t := range q.Topics {
			topic := s.reqTopic("", t.TopicID)
			for _, p := range t.Partitions {
				var f, l []int64
				var ty [][]int8
				for _, b := range p.AcknowledgementBatches {
					f, l, ty = append(f, b.FirstOffset), append(l, b.LastOffset), append(ty, b.AcknowledgeTypes)
				}
				add(topic, p.Partition, f, l, ty, "ShareAcknowledge")
			}
		}
	default:
		return
	}
	st.mu.Lock()
	if member != "" {
		st.members[member] = r.Conn.Client
	}
	if len(out) > 0 && !r.NoProc {
		for _, b := range out {
			for o := b.first; o <= b.last; o++ {
				t := b.types[0]
				if len(b.types) > 1 {
					t = b.types[o-b.first]
				}
				if t == 1 || t == 3 {
					if st.maybeFinal[b.tp] == nil {
						st.maybeFinal[b.tp] = map[int64]bool{}
					}
					st.maybeFinal[b.tp][o] = true
				}
			}
		}
		st.pend[fmt.Sprintf("%s/%d", r.Conn.Name, r.Corr)] = out
		s.Count("wire.ack_batches", int64(len(out)))
	}
	st.mu.Unlock()
}

// onProcessed: the broker's genuine verdict (whether or not the response
// reaches the client).
func (st *shareState) onProcessed(r *WireResp) {
	s := st.s
	faultFree := !st.anyFault()
	st.mu.Lock()
	defer st.mu.Unlock()
	key := fmt.Sprintf("%s/%d", r.Conn.Name, r.Corr)
	pend := st.pend[key]
	delete(st.pend, key)
	ackOK := map[string]bool{}
	switch q := r.Resp.(type) {
	case *kmsg.ShareFetchResponse:
		if q.ErrorCode != 0 {
			return
		}
		if r.Conn.Client == "drain" {
			st.drainFetches[r.Conn.Broker]++
		}
		for _, t := range q.Topics {
			topic := s.reqTopic("", t.TopicID)
			for _, p := range t.Partitions {
				// (kfake may list a partition twice, once with the
				// acknowledgement verdict and once with fetched data)
				tp := tpKeyStr(topic, p.Partition)
				if prev, seen := ackOK[tp]; seen {
					ackOK[tp] = prev && p.AcknowledgeErrorCode == 0
				} else {
					ackOK[tp] = p.AcknowledgeErrorCode == 0
				}
			}
		}
		// acknowledgements are applied before new records are acquired
		st.apply(pend, ackOK, r.Conn.Client)
		for _, t := range q.Topics {
			topic := s.reqTopic("", t.TopicID)
			for _, p := range t.Partitions {
				if p.ErrorCode != 0 {
					continue
				}
				tp := tpKeyStr(topic, p.Partition)
				m := st.acq[tp]
				if m == nil {
					m = map[int64]*shAcq{}
					st.acq[tp] = m
				}
				for _, a := range p.AcquiredRecords {
					for o := a.FirstOffset; o <= a.LastOffset; o++ {
						if old := m[o]; old != nil && old.archived && faultFree {
							s.Violf("C12/redelivered-after-final", "%s offset %d was acquired by %s (delivery %d) although the broker had answered %s's %s of it without error", tp, o, r.Conn.Client, a.DeliveryCount, old.member, ackName(old.final))
						}
						if why := st.confirmedFinal(tp, o, r.Seq); why != "" {
							s.Violf("C12/redelivered-after-confirmed", "%s offset %d was acquired by %s (delivery %d) although %s", tp, o, r.Conn.Client, a.DeliveryCount, why)
						}
						m[o] = &shAcq{member: r.Conn.Client, delivery: a.DeliveryCount, open: true}
						st.acqCount[fmt.Sprintf("%s|%s|%d", r.Conn.Client, tp, o)]++
						s.Count("wire.acquired", 1)
						if a.DeliveryCount > 1 {
							s.Count("wire.redelivered", 1)
						}
					}
				}
			}
		}
		return
	case *kmsg.ShareAcknowledgeResponse:
		if q.ErrorCode != 0 {
			return
		}
		for _, t := range q.Topics {
			topic := s.reqTopic("", t.TopicID)
			for _, p := range t.Partitions {
				ackOK[tpKeyStr(topic, p.Partition)] = p.ErrorCode == 0
			}
		}
		st.apply(pend, ackOK, r.Conn.Client)
	}
}

// confirmedFinal: was an accept or reject of (tp, offset) confirmed to the
// application before event now? Confirmed means: the application set the
// status itself, a FlushAcks invoked after that returned nil before now
// ("returns only after the callbacks for all earlier acknowledgements have
// run"), and every acknowledgement callback result for that partition between
// the two was without error - whichever of them was this record's, it said
// the outcome is final. Such a record is never delivered again. (st.mu held.)
func (st *shareState) confirmedFinal(tp string, off int64, now uint64) string {
	for _, pr := range st.byOff[fmt.Sprintf("%s|%d", tp, off)] {
		if pr.act == 0 {
			continue
		}
		for _, f := range st.flushes[pr.member] {
			if f.inv <= pr.ackSeq || f.ret >= now {
				continue
			}
			n, bad := 0, false
			for _, cb := range st.cbLog[pr.member+"|"+tp] {
				if cb.seq > pr.ackSeq && cb.seq < f.ret {
					n++
					bad = bad || cb.err
				}
			}
			if n > 0 && !bad {
				return fmt.Sprintf("%s had set %s on it (delivery %d) at event %d, FlushAcks invoked at %d returned nil at %d, and all %d acknowledgement callback results for the partition in between were without error", pr.member, ackName(int8(pr.act)), pr.delivery, pr.ackSeq, f.inv, f.ret, n)
			}
		}
	}
	return ""
}

func ackName(t int8) string {
	switch t {
	case 0:
		return "gap"
	case 1:
		return "accept"
	case 2:
		return "release"
	case 3:
		return "reject"
	case 4:
		return "renew"
	}
	return fmt.Sprint(t)
}

func (st *shareState) apply(pend []shPending, ok map[string]bool, client string) {
	s := st.s
	for _, b := range pend {
		if !ok[b.tp] {
			s.Count("wire.ack_batches_refused", 1)
			continue
		}
		for o := b.first; o <= b.last; o++ {
			t := b.types[0]
			if len(b.types) > 1 {
				t = b.types[o-b.first]
			}
			a := st.acq[b.tp][o]
			s.Count("wire.ack_applied."+ackName(t), 1)
			switch t {
			case 0:
				continue
			case 4:
				if a != nil {
					a.renewed = true
				}
				continue
			}
			// acknowledgements carry offsets, not delivery numbers: a member
			// may finish each delivery it was handed once, so the final
			// outcomes applied for it may not outnumber its acquisitions
			fk := fmt.Sprintf("%s|%s|%d", client, b.tp, o)
			st.finalCount[fk]++
			if st.finalCount[fk] > st.acqCount[fk] && st.acqCount[fk] > 0 {
				cls := "C12/final-ack-twice/other"
				if pr := st.byKey[fk]; pr != nil && pr.appRenew {
					// the window documented in consumer_share.go: a renew
					// being drained while the record gets its final status
					cls = "C12/final-ack-twice/after-renew"
				}
				s.Violf(cls, "%s offset %d: %s was handed this record %d time(s) and the broker applied %d final outcomes from it (latest: %s)", b.tp, o, client, st.acqCount[fk], st.finalCount[fk], ackName(t))
			}
			if a == nil || !a.open || a.member != client {
				// the broker accepted an acknowledgement for a record this
				// member does not hold: its state machine's business
				s.Count("probe.ack_applied_without_open_acquisition", 1)
				continue
			}
			a.final = t
			if t == 1 || t == 3 {
				a.archived = true
				if st.accepted[b.tp] == nil {
					st.accepted[b.tp] = map[int64]bool{}
				}
				st.accepted[b.tp][o] = true
			}
			if t == 2 {
				a.open = false
			}
			if st.appliedBy[client+"|"+b.tp] == nil {
				st.appliedBy[client+"|"+b.tp] = map[int64][]int8{}
			}
			st.appliedBy[client+"|"+b.tp][o] = append(st.appliedBy[client+"|"+b.tp][o], t)
		}
	}
}

type shMember struct {
	name  string
	cl    *kgo.Client
	stop  chan struct{}
	done  chan struct{}
	polls int
}

func (st *shareState) newMember(name string) *shMember {
	s := st.s
	p := s.P
	cl := s.Client(name, kgo.ShareGroup("sg"), kgo.ConsumeTopics("t0"),
		kgo.FetchMaxWait(time.Duration(p.Knob("fetch_max_wait_ms", 300))*time.Millisecond),
		kgo.ShareMaxRecords(int32(p.Knob("share_max_records", 10))),
		kgo.ShareAckCallback(func(_ *kgo.Client, rs kgo.ShareAckResults) {
			seq := s.Seq()
			st.mu.Lock()
			for _, r := range rs {
				k := name + "|" + tpKeyStr(r.Topic, r.Partition)
				st.cbSeen[k] = seq
				st.cbLog[k] = append(st.cbLog[k], shCb{seq, r.Err != nil})
				if r.Err != nil {
					st.cbErr[k]++
					s.Count("ack_callback_errors", 1)
				}
			}
			st.mu.Unlock()
			s.UserCode()
		}))
	return &shMember{name: name, cl: cl, stop: make(chan struct{}), done: make(chan struct{})}
}

func (st *shareState) run(m *shMember, a plan.Actor) {
	s := st.s
	defer close(m.done)
	i := 0
	for {
		select {
		case <-m.stop:
			return
		default:
		}
		op := plan.Op{Kind: "poll", A: 5, D: 1000}
		if len(a.Ops) > 0 {
			op = a.Ops[i%len(a.Ops)]
			i++
		}
		switch op.Kind {
		case "sleep":
			time.Sleep(time.Duration(op.A) * time.Millisecond)
			continue
		case "flush":
			inv := s.Seq()
			st.mu.Lock()
			issued := map[string]uint64{}
			for k, v := range st.ackIssued {
				if strings.HasPrefix(k, m.name+"|") {
					issued[k] = v
				}
			}
			st.mu.Unlock()
			ctx, cancel := context.WithTimeout(context.Background(), time.Duration(max64(op.D, 3000))*time.Millisecond)
			err := m.cl.FlushAcks(ctx)
			cancel()
			if err == nil {
				s.Count("flush_acks_ok", 1)
				st.mu.Lock()
				st.flushes[m.name] = append(st.flushes[m.name], shFlush{inv, s.Seq()})
				for k, at := range issued {
					if at < inv && st.cbSeen[k] < at {
						s.Violf("C12/flush/returned-before-callback", "FlushAcks of %s returned nil, but no acknowledgement callback for %s has run since the acknowledgement issued at event %d (flush invoked at %d)", m.name, strings.SplitN(k, "|", 2)[1], at, inv)
					}
				}
				st.mu.Unlock()
			} else {
				s.Count("flush_acks_ctx_error", 1)
			}
			continue
		}
		// poll
		m.polls++
		ctx, cancel := context.WithTimeout(context.Background(), time.Duration(max64(op.D, 200))*time.Millisecond)
		fs := m.cl.PollRecords(ctx, int(op.A))
		cancel()
		if fs.IsClientClosed() {
			return
		}
		var recs []*kgo.Record
		fs.EachRecord(func(r *kgo.Record) { recs = append(recs, r) })
		// every record of this poll is now in the application's hands; what
		// it does with each comes from the op's pattern
		mode := op.B
		var marks []*kgo.Record
		for j, r := range recs {
			pr := &shPolled{member: m.name, tp: tpKeyStr(r.Topic, r.Partition), off: r.Offset, val: string(r.Value), pollIdx: m.polls, seq: s.Seq(), delivery: int(r.DeliveryCount())}
			st.mu.Lock()
			st.polled = append(st.polled, pr)
			st.byKey[fmt.Sprintf("%s|%s|%d", pr.member, pr.tp, pr.off)] = pr
			ok := fmt.Sprintf("%s|%d", pr.tp, pr.off)
			st.byOff[ok] = append(st.byOff[ok], pr)
			st.mu.Unlock()
			x := mix64(s.P.Seed ^ uint64(r.Offset)*0x9e3779b97f4a7c15 ^ uint64(m.polls)*31 ^ uint64(j))
			act := int64(1) // accept
			switch mode {
			case 1: // mixed
				act = []int64{1, 1, 1, 2, 3, 4, 0, 0}[x%8]
			case 2: // leave everything to the next poll
				act = 0
			case 3: // renew, some then finished
				act = []int64{4, 4, 41, 0}[x%4]
			case 4: // MarkAcks in bulk
				act = 9
			}
			issue := func() {
				st.mu.Lock()
				st.ackIssued[m.name+"|"+pr.tp] = s.Seq()
				st.mu.Unlock()
			}
			switch act {
			case 1, 2, 3:
				pr.appFinal = true
				issue()
				r.Ack(kgo.AckStatus(act))
				if act != 2 {
					st.mu.Lock()
					pr.act, pr.ackSeq = act, s.Seq()
					st.mu.Unlock()
				}
			case 4:
				pr.appRenew = true
				issue()
				r.Ack(kgo.AckRenew)
			case 41:
				pr.appRenew, pr.appFinal = true, true
				issue()
				r.Ack(kgo.AckRenew)
				r.Ack(kgo.AckAccept)
			case 9:
				marks = append(marks, r)
			}
			if pt := s.P.Knob("process_us", 0); pt > 0 {
				time.Sleep(time.Duration(pt) * time.Microsecond)
			}
		}
		if len(marks) > 0 {
			st.mu.Lock()
			for _, r := range marks {
				st.ackIssued[m.name+"|"+tpKeyStr(r.Topic, r.Partition)] = s.Seq()
			}
			for _, pr := range st.polled[len(st.polled)-len(recs):] {
				pr.appFinal = true
			}
			st.mu.Unlock()
			if op.C == 0 {
				m.cl.MarkAcks(kgo.AckAccept, marks...)
			} else {
				m.cl.MarkAcks(kgo.AckAccept) // all of the last poll still pending
			}
		}
	}
}

func scenShare(s *Sim) {
	p := s.P
	nb := int(p.Knob("nbroker", 2))
	nparts := int32(p.Knob("nparts", 2))
	cfgs := map[string]string{
		"group.share.delivery.count.limit":    "1000",
		"group.share.record.lock.duration.ms": fmt.Sprint(p.Knob("lock_ms", 15000)),
	}
	s.StartCluster(nb, kfake.SeedTopics(nparts, "t0"), kfake.BrokerConfigs(cfgs))
	st := &shareState{s: s, acq: map[string]map[int64]*shAcq{}, pend: map[string][]shPending{}, appliedBy: map[string]map[int64][]int8{},
		sentBy: map[string]map[int64][]int8{}, drainFetches: map[int32]int{}, cbLog: map[string][]shCb{}, flushes: map[string][]shFlush{}, byOff: map[string][]*shPolled{},
		ackIssued: map[string]uint64{}, cbSeen: map[string]uint64{}, cbErr: map[string]int{}, members: map[string]string{}, disturbed: map[string]bool{}, accepted: map[string]map[int64]bool{}, maybeFinal: map[string]map[int64]bool{}, byKey: map[string]*shPolled{}, acqCount: map[string]int{}, finalCount: map[string]int{}}
	s.OnReq = append(s.OnReq, st.onReq)
	s.OnProcessed = append(s.OnProcessed, st.onProcessed)
	admin := s.Raw("admin")
	defer admin.Close()
	{
		// the share group reads from the start of the log
		r := kmsg.NewPtrIncrementalAlterConfigsRequest()
		rr := kmsg.NewIncrementalAlterConfigsRequestResource()
		rr.ResourceType, rr.ResourceName = kmsg.ConfigResourceTypeGroupConfig, "sg"
		c := kmsg.NewIncrementalAlterConfigsRequestResourceConfig()
		c.Name, c.Op, c.Value = "share.auto.offset.reset", 0, kmsg.StringPtr("earliest")
		rr.Configs = append(rr.Configs, c)
		r.Resources = append(r.Resources, rr)
		if resp, err := admin.Do(0, r); err != nil || len(resp.(*kmsg.IncrementalAlterConfigsResponse).Resources) != 1 || resp.(*kmsg.IncrementalAlterConfigsResponse).Resources[0].ErrorCode != 0 {
			s.OutOfScope("cannot set share.auto.offset.reset")
			return
		}
	}
	// producer
	txnProd := p.Knob("txn_prod", 0) != 0
	popts := []kgo.Opt{kgo.RecordPartitioner(kgo.ManualPartitioner())}
	if txnProd {
		popts = append(popts, kgo.TransactionalID("txn-w0"), kgo.TransactionTimeout(60*time.Second))
	}
	prod := s.Client("w0", popts...)
	produced := map[string]string{} // value -> tp
	var pmu sync.Mutex
	var members []*shMember
	var mmu sync.Mutex
	for _, a := range p.Actors {
		a := a
		switch {
		case a.Name == "prod":
			s.Go(func() {
				n := 0
				open := false
				var inTxn []string // values produced in the open transaction
				var inTxnTP []string
				for _, op := range a.Ops {
					if op.Kind == "sleep" {
						time.Sleep(time.Duration(op.A) * time.Millisecond)
						continue
					}
					if op.Kind == "txn_end" {
						if !open {
							continue
						}
						open = false
						ctx, cancel := context.WithTimeout(context.Background(), 30*time.Second)
						err := prod.EndTransaction(ctx, kgo.TryCommit)
						cancel()
						if err != nil {
							// outcome unknown to this harness: the records may or
							// may not become visible; they are not required
							s.Logf("PROD EndTransaction: %v", err)
							s.Probe("share_txn_end_error")
							return
						}
						s.Probe("share_txn_committed")
						pmu.Lock()
						for i, v := range inTxn {
							produced[v] = inTxnTP[i]
						}
						pmu.Unlock()
						inTxn, inTxnTP = nil, nil
						continue
					}
					if txnProd && !open {
						if err := prod.BeginTransaction(); err != nil {
							s.Logf("PROD BeginTransaction: %v", err)
							return
						}
						open = true
					}
					n++
					v := fmt.Sprintf("s%d", n)
					part := int32(op.B) % nparts
					res := prod.ProduceSync(context.Background(), &kgo.Record{Topic: "t0", Partition: part, Value: []byte(v)})
					if res.FirstErr() == nil {
						if txnProd {
							inTxn = append(inTxn, v)
							inTxnTP = append(inTxnTP, tpKeyStr("t0", part))
							continue
						}
						pmu.Lock()
						produced[v] = tpKeyStr("t0", part)
						pmu.Unlock()
					}
				}
			})
		case strings.HasPrefix(a.Name, "member"):
			m := st.newMember(a.Client)
			mmu.Lock()
			members = append(members, m)
			mmu.Unlock()
			go st.run(m, a)
		}
	}
	closeMember := func(m *shMember) {
		select {
		case <-m.stop:
			return
		default:
			close(m.stop)
		}
		done := make(chan struct{})
		go func() { s.CloseCl(m.cl, false); close(done) }()
		select {
		case <-done:
		case <-time.After(5 * time.Minute):
			s.Violf("C13/hang/close-share-member", "Close of share group member %s did not return within 5m\n%s", m.name, goroutineDump("kgo"))
			return
		}
		s.Forget(m.name)
		select {
		case <-m.done:
		case <-time.After(2 * time.Minute):
			s.Violf("C13/hang/share-poll-after-close", "poll loop of %s did not end within 2m of Close", m.name)
		}
		s.Probe("share_member_closed")
	}
	for _, ev := range p.Events {
		ev := ev
		s.At(time.Duration(ev.AtMs)*time.Millisecond, func() {
			switch ev.Kind {
			case "move", "shuffle":
				produceEnvEvent(s, admin, ev, nb, nparts)
				st.mu.Lock()
				for _, m := range members {
					st.disturbed[m.name] = true
				}
				st.mu.Unlock()
			case "close_member":
				mmu.Lock()
				var m *shMember
				if int(ev.A) < len(members) {
					m = members[ev.A]
				}
				mmu.Unlock()
				if m != nil {
					closeMember(m)
				}
			}
		})
	}
	s.ScheduleTimedFaults()
	s.WaitActors(time.Duration(p.Knob("fault_phase_ms", 30000)) * time.Millisecond)
	time.Sleep(time.Duration(p.Knob("run_ms", 20000)) * time.Millisecond)
	s.Heal()
	time.Sleep(5 * time.Second)
	mmu.Lock()
	ms := append([]*shMember(nil), members...)
	mmu.Unlock()
	for _, m := range ms {
		closeMember(m)
	}
	faulted := false
	for k, v := range s.stats {
		if (strings.HasPrefix(k, "fault.") || strings.HasPrefix(k, "env.")) && v > 0 {
			faulted = true
		}
	}
	// acquisition locks of whatever was left open run out, then a drain
	// member consumes and accepts everything that is still deliverable
	time.Sleep(time.Duration(p.Knob("lock_ms", 15000))*time.Millisecond + 10*time.Second)
	drain := st.newMember("drain")
	close(drain.done) // no poll loop of its own
	got := map[string]int{}
	quiet := 0
	// the drain member is done after four empty polls in a row - counted
	// only once every broker has answered it a few fetches (on a slow network
	// joining the group alone can take longer than those polls), and for at
	// most ten minutes
	drainStart := s.Now()
	settled := func() bool {
		st.mu.Lock()
		defer st.mu.Unlock()
		for q := int32(0); q < nparts; q++ {
			if b := s.Cluster.LeaderFor("t0", q); b >= 0 && st.drainFetches[b] < 3 {
				return false
			}
		}
		return true
	}
	for quiet < 4 || (!settled() && s.Now()-drainStart < 10*time.Minute) {
		ctx, cancel := context.WithTimeout(context.Background(), 3*time.Second)
		fs := drain.cl.PollRecords(ctx, 100)
		cancel()
		n := 0
		fs.EachRecord(func(r *kgo.Record) {
			n++
			got[string(r.Value)]++
			r.Ack(kgo.AckAccept)
		})
		if n == 0 {
			quiet++
		} else {
			quiet = 0
		}
	}
	closeMember(drain)

	// accounting
	st.mu.Lock()
	defer st.mu.Unlock()
	pmu.Lock()
	defer pmu.Unlock()
	finalBy := map[string]bool{} // value -> a member's accept/reject of it was applied
	valAt := map[string]string{} // tp@off -> value
	for _, pr := range st.polled {
		valAt[fmt.Sprintf("%s@%d", pr.tp, pr.off)] = pr.val
	}
	for tp, m := range st.maybeFinal {
		for o := range m {
			if v, ok := valAt[fmt.Sprintf("%s@%d", tp, o)]; ok {
				finalBy[v] = true
			}
		}
	}
	var vals []string
	for v := range produced {
		vals = append(vals, v)
	}
	sort.Strings(vals)
	for _, v := range vals {
		switch {
		case got[v] > 1:
			// redelivery before an acknowledgement is confirmed (a share
			// session that was reset) is at-least-once, not a violation
			s.Probe("drain_redelivery")
		case got[v] == 0 && !finalBy[v]:
			// what the wire saw of it last
			last := "never acquired by anybody"
			for k, val := range valAt {
				if val != v {
					continue
				}
				var tp string
				var off int64
				if i := strings.LastIndexByte(k, '@'); i > 0 {
					tp = k[:i]
					fmt.Sscanf(k[i+1:], "%d", &off)
				}
				if a := st.acq[tp][off]; a != nil {
					last = fmt.Sprintf("offset %d, last acquisition by %s (delivery %d), still open=%v, final outcomes applied to it=%d (last %s), renewed=%v", off, a.member, a.delivery, a.open, a.finals, ackName(a.final), a.renewed)
				}
			}
			s.Violf("C12/lost", "record %s (%s) was neither accepted/rejected by any member nor delivered to the drain member after all members closed and the acquisition locks ran out; %s", v, produced[v], last)
		}
	}
	s.Count("records_produced", int64(len(vals)))
	s.Count("records_drained", int64(len(got)))
	// records the application left without a final status are accepted at
	// the member's next poll (or released when it closes): judged where no
	// fault, move or acknowledgement error touched the member
	lastPoll := map[string]int{}
	for _, pr := range st.polled {
		if pr.pollIdx > lastPoll[pr.member] {
			lastPoll[pr.member] = pr.pollIdx
		}
	}
	for _, pr := range st.polled {
		if pr.appFinal || pr.member == "drain" || faulted || st.cbErr[pr.member+"|"+pr.tp] > 0 {
			continue
		}
		// judged on what the member SENT: an acquisition lock that ran out
		// before a slow member's next poll makes the broker ignore or refuse
		// the accept, which is not the client's doing
		ts := st.sentBy[pr.member+"|"+pr.tp][pr.off]
		want := int8(1)
		what := "accepted at the next poll"
		if pr.pollIdx == lastPoll[pr.member] {
			// last poll of this member: released on close (or accepted if
			// another poll started before the close)
			want, what = 2, "released on close (or accepted by a later poll)"
		}
		ok := false
		for _, t := range ts {
			if t == want || (want == 2 && t == 1) {
				ok = true
			}
		}
		if !ok {
			s.Violf("C12/unacked/not-finalised", "record %s (%s offset %d, delivery %d), polled by %s in its poll #%d and left without a final status by the application (renewed: %v), was not %s: acknowledgement types this member sent for it: %v", pr.val, pr.tp, pr.off, pr.delivery, pr.member, pr.pollIdx, pr.appRenew, what, ts)
		}
		s.Count("unacked_records_judged", 1)
	}
	s.Count("nontrivial", 1)
}
