package sim

import (
	"context"
	"fmt"
	"reflect"
	"sync/atomic"
	"time"

	"github.com/twmb/franz-go/pkg/kgo"
)

// The closer is the C13 plan element: Close (CloseAllowingRebalance when the
// plan blocks rebalances on poll) of one client of the run, called from a
// goroutine of its own at a generated point - a simulated time after the
// client was created and/or the n-th frame of a kind on one of its
// connections (an event-triggered action: it runs while the client's own
// goroutines are runnable) - with the network of that client healthy, as the
// fault plan left it, refusing, black-holed or slow.
//
// Knobs: c13 (armed), c13_client (ordinal of the client among those the
// scenario creates), c13_after_ms, c13_nth / c13_key / c13_dir (0 request, 1
// response), c13_net (0 heal first, 1 as is, 2 refuse, 3 black hole, 4 slow, 5 frozen peer),
// c13_lead_ms (the network change precedes the Close call by this much).
type closer struct {
	s      *Sim
	name   string
	cl     *kgo.Client
	fired  atomic.Bool
	seen   int
	hooks  *closeHooks
	doneAt time.Duration
	closed chan struct{}
}

// closeHooks counts buffered/unbuffered produce records of one client (the
// unbuffered hook runs right before the promise).
type closeHooks struct {
	buffered, unbuffered atomic.Int64
}

func (h *closeHooks) OnProduceRecordBuffered(*kgo.Record)          { h.buffered.Add(1) }
func (h *closeHooks) OnProduceRecordUnbuffered(*kgo.Record, error) { h.unbuffered.Add(1) }

// closeOnce makes every Close of one client happen once; later callers wait
// for the first to return (what an application that shares a client does
// with a sync.Once).
type closeOnce struct {
	done chan struct{} // closed when the first Close returned (a channel: a sync.Once would block later callers on a mutex, which the bubble does not count as durably blocked)
}

// CloseCl closes a client exactly once.
func (s *Sim) CloseCl(cl *kgo.Client, allowRebalance bool) {
	s.mu.Lock()
	o := s.closeOnces[cl]
	first := o == nil
	if first {
		o = &closeOnce{done: make(chan struct{})}
		s.closeOnces[cl] = o
	}
	s.mu.Unlock()
	if !first {
		<-o.done
		return
	}
	defer close(o.done)
	if allowRebalance {
		cl.CloseAllowingRebalance()
	} else {
		cl.Close()
	}
}

func (s *Sim) closerArmed() bool { return s.P.Knob("c13", 0) != 0 }

// closerOpts returns the extra client options of a run with a closer.
func (s *Sim) closerOpts() []kgo.Opt {
	if !s.closerArmed() {
		return nil
	}
	h := &closeHooks{}
	s.mu.Lock()
	s.pendingHooks = h
	s.mu.Unlock()
	return []kgo.Opt{kgo.WithHooks(h)}
}

// registerClient is called for every client a scenario creates.
func (s *Sim) registerClient(name string, cl *kgo.Client) {
	if !s.closerArmed() {
		return
	}
	s.mu.Lock()
	ord := s.clientOrd
	s.clientOrd++
	h := s.pendingHooks
	s.pendingHooks = nil
	s.mu.Unlock()
	if int64(ord) != s.P.Knob("c13_client", 0) || s.closer != nil {
		return
	}
	c := &closer{s: s, name: name, cl: cl, hooks: h, closed: make(chan struct{})}
	s.closer = c
	s.Logf("CLOSER armed for client %s (ordinal %d)", name, ord)
	after := time.Duration(s.P.Knob("c13_after_ms", 5000)) * time.Millisecond
	s.AtDriver(s.Now()+after, func() { c.fire("timer") })
	if nth := int(s.P.Knob("c13_nth", 0)); nth > 0 {
		key := int16(s.P.Knob("c13_key", -1))
		if s.P.Knob("c13_dir", 0) == 0 {
			s.OnReq = append(s.OnReq, func(r *WireReq) {
				if r.Conn.Client == name && (key < 0 || r.Key == key) {
					if c.seen++; c.seen == nth {
						c.fire(fmt.Sprintf("request #%d key=%d", nth, r.Key))
					}
				}
			})
		} else {
			s.OnResp = append(s.OnResp, func(r *WireResp) {
				if r.Conn.Client == name && (key < 0 || r.Key == key) {
					if c.seen++; c.seen == nth {
						c.fire(fmt.Sprintf("response #%d key=%d", nth, r.Key))
					}
				}
			})
		}
	}
}

// fire runs in the driver goroutine and must not block.
func (c *closer) fire(why string) {
	if !c.fired.CompareAndSwap(false, true) {
		return
	}
	s := c.s
	mode := s.P.Knob("c13_net", 0)
	s.Logf("CLOSER fires (%s) for %s, net mode %d", why, c.name, mode)
	s.Count(fmt.Sprintf("c13.fired.net%d", mode), 1)
	far := time.Now().Add(24 * time.Hour)
	switch mode {
	case 0:
		s.healInline()
	case 2:
		s.Net.mu.Lock()
		s.Net.dialBlock[c.name+"|-1"] = far
		s.Net.mu.Unlock()
		for _, cn := range s.conns() {
			if cn.Client == c.name && !cn.dead.Load() {
				cn.kill()
			}
		}
		s.Count("fault.close_refused", 1)
	case 3:
		s.Net.mu.Lock()
		s.Net.dialHang[c.name+"|-1"] = far
		s.Net.mu.Unlock()
		for _, cn := range s.conns() {
			if cn.Client == c.name && !cn.dead.Load() {
				cn.blackhole = true
			}
		}
		s.Count("fault.close_blackholed", 1)
	case 5:
		// frozen peer: established connections go silent and new ones
		// are accepted but never answered (a stopped broker process
		// behind a listening socket, a dead backend behind a proxy)
		s.Net.mu.Lock()
		s.Net.blackholeNew[c.name] = true
		s.Net.mu.Unlock()
		for _, cn := range s.conns() {
			if cn.Client == c.name && !cn.dead.Load() {
				cn.blackhole = true
			}
		}
		s.Count("fault.close_frozen_peer", 1)
	case 4:
		for _, cn := range s.conns() {
			if cn.Client == c.name && !cn.dead.Load() {
				cn.setExtra(s.P.Knob("c13_slow_ms", 1500))
			}
		}
		s.Count("fault.close_slow", 1)
	}
	// the network change may precede the Close call, so that Close meets
	// a client that is already timing out and reconnecting
	if lead := time.Duration(s.P.Knob("c13_lead_ms", 0)) * time.Millisecond; lead > 0 && mode >= 2 {
		s.At(s.Now()+lead, c.run)
		return
	}
	go c.run()
}

// closeBound is the time Close may legitimately take, from the configured
// time-outs. A client that only produces waits for nothing but the one-second
// metrics goodbye. A consumer also sends a goodbye fetch per fetch session
// (budget one second), but every request of one broker goes through one queue
// and a request whose connection is gone first re-establishes it, which a
// silent peer makes last a dial time-out plus a request time-out (the
// ApiVersions read); a handful of such requests can be queued ahead. A group
// member additionally may wait for a rebalance in progress, its revoke
// callback's commit and the leave request, each bounded by the rebalance /
// retry / request time-outs.
func (s *Sim) closeBound(cl *kgo.Client) time.Duration {
	ms := func(k string, def int64) time.Duration { return time.Duration(s.P.Knob(k, def)) * time.Millisecond }
	conn := ms("dial_timeout_ms", 10000) + ms("req_overhead_ms", 2000)
	if !clientConsumes(cl) {
		return 5 * time.Second
	}
	b := 5*time.Second + 8*conn
	if g, _ := cl.OptValue(kgo.ConsumerGroup).(string); g != "" {
		b += 2*ms("rebalance_ms", 60000) + 4*(ms("retry_timeout_ms", 8000)+conn) + 30*time.Second
	}
	return b
}

// CloseBoundAtLeast is closeBound, but never below a floor the scenarios
// used before the bound was derived from the plan's time-outs.
func (s *Sim) CloseBoundAtLeast(cl *kgo.Client, floor time.Duration) time.Duration {
	if b := s.closeBound(cl); b > floor {
		return b
	}
	return floor
}

func (c *closer) run() {
	s := c.s
	cl := c.cl
	t0 := s.Now()
	bound := s.closeBound(cl)
	block := s.P.Knob("block_rebalance", 0) != 0
	done := make(chan struct{})
	go func() { s.CloseCl(cl, block); close(done) }()
	select {
	case <-done:
	case <-time.After(bound):
		s.Violf("C13/hang/close", "Close of %s (net mode %d) did not return within %v (bound from the configured time-outs)\n%s", c.name, s.P.Knob("c13_net", 0), bound, goroutineDump("kgo"))
		select {
		case <-done:
		case <-time.After(10 * time.Minute):
			s.Violf("C13/hang/close-never", "Close of %s still has not returned 10m later", c.name)
			return
		}
	}
	d := s.Now() - t0
	c.doneAt = s.Now()
	s.Forget(c.name)
	close(c.closed)
	s.Max("close_ms_max", int64(d/time.Millisecond))
	s.Max(fmt.Sprintf("c13.close_ms_net%d_max", s.P.Knob("c13_net", 0)), int64(d/time.Millisecond))
	s.Count("c13.closes", 1)
	s.Logf("CLOSER Close of %s returned after %v", c.name, d)

	// polls return ErrClientClosed
	if clientConsumes(cl) {
		for i := 0; i < 2; i++ {
			ctx, cancel := context.WithTimeout(context.Background(), 2*time.Second)
			var fs kgo.Fetches
			if i == 0 {
				fs = cl.PollFetches(ctx)
			} else {
				fs = cl.PollRecords(ctx, 5)
			}
			cancel()
			if !fs.IsClientClosed() {
				s.Violf("C13/poll-after-close", "poll #%d after Close of %s did not report ErrClientClosed: %d records, errors %v", i, c.name, fs.NumRecords(), fs.Errors())
			}
			if block {
				cl.AllowRebalance()
			}
		}
		s.Count("c13.poll_after_close_checked", 1)
	}
	// every produce promise is eventually called
	if c.hooks != nil {
		ok := s.WaitFor(30*time.Second, 100*time.Millisecond, func() bool { return c.hooks.buffered.Load() == c.hooks.unbuffered.Load() })
		if !ok {
			s.Violf("C13/promise/never-after-close", "30s after Close of %s returned, %d records were buffered but only %d finished", c.name, c.hooks.buffered.Load(), c.hooks.unbuffered.Load())
		}
		if c.hooks.buffered.Load() > 0 {
			s.Count("c13.promises_checked", 1)
		}
	}
}

// healInline is Heal for callers already inside the driver goroutine.
func (s *Sim) healInline() {
	s.mu.Lock()
	s.healed = true
	s.mu.Unlock()
	n := s.Net
	n.mu.Lock()
	for k := range n.dialBlock {
		delete(n.dialBlock, k)
	}
	n.mu.Unlock()
	for _, c := range s.conns() {
		c.stalledUntil = time.Time{}
		c.setExtra(0)
		if c.blackhole && !c.dead.Load() {
			c.kill()
		}
	}
}

func clientConsumes(cl *kgo.Client) bool {
	if g, _ := cl.OptValue(kgo.ConsumerGroup).(string); g != "" {
		return true
	}
	for _, o := range []any{kgo.ConsumeTopics, kgo.ConsumePartitions} {
		if v := reflect.ValueOf(cl.OptValue(o)); v.IsValid() && (v.Kind() == reflect.Map || v.Kind() == reflect.Slice) && v.Len() > 0 {
			return true
		}
	}
	if re, _ := cl.OptValue(kgo.ConsumeRegex).(bool); re {
		return true
	}
	return false
}
