//go:build verifrt

package sim

import "runtime"

func rtSeed(seed uint64, sched, yield uint32) {
	runtime.VerifSimSeed(seed)
	runtime.VerifSimSched(sched)
	runtime.VerifSimYieldProb(yield)
}

var lastSpin uint64

func rtSpinReset()              { lastSpin = runtime.VerifSpinReset() }
func rtSpinBreaks() uint64      { return lastSpin }
func rtTrace() (uint64, uint64) { return runtime.VerifTrace() }

const rtEnabled = true
