//go:build verifrt

package sim

import "runtime"

func rtSeed(seed uint64, sched, yield uint32) {
	runtime.VerifSimSeed(seed)
	runtime.VerifSimSched(sched)
	runtime.VerifSimYieldProb(yield)
	runtime.VerifNonBubbleReset()
}

// rtNonBubble reports how many times a goroutine outside the bubble was made
// runnable during the run, and which ones (start function names).
func rtNonBubble() (uint64, string) {
	n, _, pcs := runtime.VerifNonBubble()
	var names string
	for i := 0; i < len(pcs) && uint64(i) < n; i++ {
		if f := runtime.FuncForPC(pcs[i]); f != nil {
			names += f.Name() + ";"
		}
	}
	return n, names
}

var lastSpin uint64

func rtSpinReset()              { lastSpin = runtime.VerifSpinReset() }
func rtSpinBreaks() uint64      { return lastSpin }
func rtTrace() (uint64, uint64) { return runtime.VerifTrace() }

func rtDraws() (uint64, uint64) { return runtime.VerifDraws() }

func rtEvLogOn()        { runtime.VerifEvLogOn() }
func rtEvLog() []uint64 { return runtime.VerifEvLog() }

const rtEnabled = true

// rtYield is a seeded yield decided inside the runtime: no harness lock, no
// atomic of the harness - nothing the race detector would take for
// synchronisation between the goroutines that call it.
func rtYield(site uint32) { runtime.VerifYield(site) }

func rtSpinBreaksNow() uint64 { return runtime.VerifSpinBreaks() }
