package sim

import (
	"fmt"
	"sort"
	"sync"
	"sync/atomic"
	"time"

	"github.com/twmb/franz-go/pkg/kgo"
)

func init() {
	Scenarios["micro_ring"] = scenMicroRing
	Scenarios["micro_gate"] = scenMicroGate
	Scenarios["micro_mutex"] = scenMicroMutex
}

// waitAll waits for the goroutines or reports a hang (the fake clock jumps
// to the time-out as soon as everything is durably blocked).
func waitAll(s *Sim, wg *sync.WaitGroup, class, what string) bool {
	ch := make(chan struct{})
	go func() { wg.Wait(); close(ch) }()
	select {
	case <-ch:
		return true
	case <-time.After(time.Hour):
		s.Violf(class, "%s: goroutines still blocked with nothing left to wake them\n%s", what, filteredStacks("kgo", 12))
		return false
	}
}

// --- C30: ring + work latch ----------------------------------------------------

func scenMicroRing(s *Sim) {
	p := s.P
	s.Count("nontrivial", 1)
	var r kgo.VerifRing
	maxLen := int(p.Knob("ring_max", 0))
	if maxLen > 0 {
		r.InitMaxLen(maxLen)
	}
	npush := int(p.Knob("pushers", 3))
	per := int(p.Knob("per_pusher", 10))
	forcePct := p.Knob("force_pct", 0)
	dieAfter := p.Knob("die_after", -1) // die once this many elements were processed (-1: never)

	type pushRec struct {
		elem               int
		invoke, ret        uint64
		accepted, rejected bool
	}
	var mu sync.Mutex
	var pushes []*pushRec
	var processed []int
	var procSeq []uint64
	var workers, maxWorkers int32
	var nproc atomic.Int64
	died := make(chan struct{})
	var dieOnce sync.Once

	var workerWG sync.WaitGroup
	worker := func(first int) {
		defer workerWG.Done()
		e := first
		for {
			n := atomic.AddInt32(&workers, 1)
			if n > 1 {
				s.Violf("C30/ring/two-workers", "two workers are processing ring elements at once (element %d)", e)
			}
			mu.Lock()
			if n > maxWorkers {
				maxWorkers = n
			}
			processed = append(processed, e)
			procSeq = append(procSeq, s.Seq())
			mu.Unlock()
			if k := nproc.Add(1); dieAfter >= 0 && k == dieAfter {
				dieOnce.Do(func() { r.Die(); close(died); s.Probe("ring_died") })
			}
			atomic.AddInt32(&workers, -1)
			next, more, _ := r.DropPeek()
			if !more {
				return
			}
			e = next
		}
	}
	var wg sync.WaitGroup
	for pi := 0; pi < npush; pi++ {
		pi := pi
		wg.Add(1)
		go func() {
			defer wg.Done()
			for i := 0; i < per; i++ {
				e := pi*1000 + i
				pr := &pushRec{elem: e}
				mu.Lock()
				pushes = append(pushes, pr)
				force := int64(s.Pick(100)) < forcePct
				mu.Unlock()
				pr.invoke = s.Seq()
				var first, dead bool
				if force {
					first, dead = r.PushForce(e)
				} else {
					first, dead = r.Push(e)
				}
				pr.ret = s.Seq()
				if dead {
					pr.rejected = true
					select {
					case <-died:
					default:
						s.Violf("C30/ring/rejected-alive", "push of %d was rejected although the ring was never killed", e)
					}
					continue
				}
				pr.accepted = true
				if first {
					workerWG.Add(1)
					go worker(e)
				}
			}
		}()
	}
	if !waitAll(s, &wg, "C30/ring/pusher-blocked", "ring pushers") {
		return
	}
	if !waitAll(s, &workerWG, "C30/ring/worker-blocked", "ring workers") {
		return
	}
	mu.Lock()
	defer mu.Unlock()
	count := map[int]int{}
	for _, e := range processed {
		count[e]++
	}
	byElem := map[int]*pushRec{}
	for _, pr := range pushes {
		byElem[pr.elem] = pr
		if pr.accepted && count[pr.elem] != 1 {
			s.Violf("C30/ring/accepted-not-once", "element %d was accepted but handed to a worker %d times", pr.elem, count[pr.elem])
		}
		if pr.rejected && count[pr.elem] != 0 {
			s.Violf("C30/ring/rejected-but-processed", "element %d was rejected but processed", pr.elem)
		}
	}
	// order: per pusher, and consistent with real-time order of pushes
	lastIdx := map[int]int{}
	for i, e := range processed {
		pu := e / 1000
		if l, ok := lastIdx[pu]; ok && e%1000 < l {
			s.Violf("C30/ring/order-per-pusher", "element %d processed after element %d of the same pusher", e, pu*1000+l)
		}
		lastIdx[pu] = e % 1000
		for j := i + 1; j < len(processed); j++ {
			a, b := byElem[processed[i]], byElem[processed[j]]
			if a != nil && b != nil && b.ret < a.invoke {
				s.Violf("C30/ring/order-global", "element %d (pushed in [%d,%d]) processed before element %d whose push had returned at %d", a.elem, a.invoke, a.ret, b.elem, b.ret)
			}
		}
	}
	s.Count("ring.processed", int64(len(processed)))

	// the start-work latch
	var l kgo.VerifWorkLoop
	var pending, done atomic.Int64
	var lworkers int32
	var lwg, swg sync.WaitGroup
	nsig := int(p.Knob("signallers", 3))
	persig := int(p.Knob("per_signaller", 8))
	hardPct := p.Knob("hard_pct", 0)
	var lworker func()
	lworker = func() {
		defer lwg.Done()
		for {
			if n := atomic.AddInt32(&lworkers, 1); n > 1 {
				s.Violf("C30/latch/two-workers", "the work latch let two workers run at once")
			}
			got := pending.Swap(0)
			done.Add(got)
			atomic.AddInt32(&lworkers, -1)
			if int64(s.Pick(100)) < hardPct {
				// hard finish with the documented compensation (as loopFetch
				// does on noConsumerSession): the bump of a racing signaller
				// is discarded, so re-check for work and re-trigger
				s.Probe("latch_hard_finish")
				l.HardFinish()
				if pending.Load() == 0 || !l.MaybeBegin() {
					return
				}
				s.Probe("latch_hard_finish_retrigger")
				continue
			}
			if !l.MaybeFinish(false) {
				return
			}
		}
	}
	for si := 0; si < nsig; si++ {
		swg.Add(1)
		go func() {
			defer swg.Done()
			for i := 0; i < persig; i++ {
				pending.Add(1)
				if l.MaybeBegin() {
					lwg.Add(1)
					go lworker()
				}
			}
		}()
	}
	if !waitAll(s, &swg, "C30/latch/signaller-blocked", "latch signallers") || !waitAll(s, &lwg, "C30/latch/worker-blocked", "latch workers") {
		return
	}
	if pending.Load() != 0 || done.Load() != int64(nsig*persig) {
		s.Violf("C30/latch/lost-wakeup", "%d signals were sent, %d units of work were done, %d are still pending with no worker running", nsig*persig, done.Load(), pending.Load())
	}
}

// --- C31: the BlockRebalanceOnPoll gate ---------------------------------------------

func scenMicroGate(s *Sim) {
	p := s.P
	s.Count("nontrivial", 1)
	g := kgo.NewVerifGate()
	var mu sync.Mutex
	p2Inside, p2Gen, allowGen := false, 0, 0 // second poller: inside a poll admitted at AllowRebalance generation p2Gen
	inReb := 0                               // rebalances inside their gated section
	holding := 0                             // polls that returned records and were not yet allowed
	var wg sync.WaitGroup
	npoll := int(p.Knob("poll_iters", 20))
	nreb := int(p.Knob("rebalancers", 2))
	rebIters := int(p.Knob("reb_iters", 6))
	recPct := p.Knob("records_pct", 60)
	allowInReb := p.Knob("allow_in_reb_pct", 30)
	extraPoller := p.Knob("empty_poller", 0) != 0

	// the application's poll loop (one goroutine polls and processes)
	wg.Add(1)
	go func() {
		defer wg.Done()
		for i := 0; i < npoll; i++ {
			// AllowRebalance resets the poll count, so a release by another
			// goroutine's poll that was admitted before the reset would be
			// taken from THIS goroutine's next hold: an application with
			// several polling goroutines has to order "next hold" after
			// "releases of polls older than my AllowRebalance"
			for {
				mu.Lock()
				wait := p2Inside && p2Gen < allowGen
				mu.Unlock()
				if !wait {
					break
				}
				time.Sleep(50 * time.Microsecond)
			}
			g.WaitAndAddPoller()
			mu.Lock()
			if inReb > 0 {
				s.Violf("C31/gate/poll-during-rebalance", "a poll passed the gate while %d rebalance(s) are inside their gated section (iteration %d)", inReb, i)
			}
			withRecords := int64(s.Pick(100)) < recPct
			if withRecords {
				holding++
			}
			mu.Unlock()
			if !withRecords {
				g.UnaddPoller()
				continue
			}
			if s.Pick(3) == 0 {
				time.Sleep(time.Duration(s.Pick(5)) * time.Millisecond)
			}
			mu.Lock()
			holding--
			mu.Unlock()
			g.AllowRebalance()
			// (the generation moves after the reset: a second-poller poll
			// admitted between the two would otherwise carry the new
			// generation although the reset cleared its count)
			mu.Lock()
			allowGen++
			mu.Unlock()
		}
	}()
	if extraPoller {
		// a second goroutine whose polls never return records
		wg.Add(1)
		go func() {
			defer wg.Done()
			for i := 0; i < npoll; i++ {
				mu.Lock()
				p2Inside, p2Gen = true, allowGen
				mu.Unlock()
				g.WaitAndAddPoller()
				mu.Lock()
				if inReb > 0 && holding == 0 {
					// entering while a rebalance runs is only legal behind another poller
					s.Violf("C31/gate/poll-during-rebalance", "an empty poll passed the gate while %d rebalance(s) are inside their gated section", inReb)
				}
				mu.Unlock()
				if s.Pick(2) == 0 {
					time.Sleep(time.Duration(s.Pick(3000)) * time.Microsecond) // inside its fill section
				}
				g.UnaddPoller()
				mu.Lock()
				p2Inside = false
				mu.Unlock()
			}
		}()
	}
	for r := 0; r < nreb; r++ {
		wg.Add(1)
		go func() {
			defer wg.Done()
			for i := 0; i < rebIters; i++ {
				g.WaitAndAddRebalance(s.Pick(2) == 0)
				mu.Lock()
				if holding > 0 {
					s.Violf("C31/gate/rebalance-during-poll", "a rebalance entered its gated section while a poll that returned records is outstanding (AllowRebalance not yet called)")
				}
				inReb++
				callAllow := int64(s.Pick(100)) < allowInReb
				if extraPoller {
					// with a second polling goroutine an AllowRebalance from
					// here resets the count under a poll that goroutine may be
					// blocked in at the gate; its release would then be taken
					// from the first poller's next hold (the counter-reset
					// design, not a defect): not generated
					callAllow = false
				}
				mu.Unlock()
				if callAllow {
					// (it resets the poll count like any AllowRebalance: for the
					// first poller's ordering rule above it is a new generation)
					mu.Lock()
					allowGen++
					mu.Unlock()
					g.AllowRebalance() // no poll is outstanding here: a legal no-op
					s.Probe("allow_inside_rebalance")
				}
				if s.Pick(3) == 0 {
					time.Sleep(time.Duration(s.Pick(5)) * time.Millisecond)
				}
				mu.Lock()
				inReb--
				mu.Unlock()
				g.UnaddRebalance()
				if s.Pick(2) == 0 {
					time.Sleep(time.Duration(s.Pick(3)) * time.Millisecond)
				}
			}
		}()
	}
	waitAll(s, &wg, "C31/gate/deadlock", "polls, AllowRebalance and rebalances")
}

// --- C31: the synctest mutexes -----------------------------------------------------

func scenMicroMutex(s *Sim) {
	p := s.P
	s.Count("nontrivial", 1)
	var m kgo.VerifMutex
	var rw kgo.VerifRWMutex
	var wg sync.WaitGroup
	var inM, writers, readers int32
	n := int(p.Knob("goroutines", 4))
	iters := int(p.Knob("iters", 15))
	var smu sync.Mutex
	pick := func(k int) int { smu.Lock(); defer smu.Unlock(); return s.Pick(k) }
	for gi := 0; gi < n; gi++ {
		wg.Add(1)
		go func() {
			defer wg.Done()
			for i := 0; i < iters; i++ {
				switch pick(6) {
				case 0, 1:
					locked := true
					if pick(3) == 0 {
						locked = m.TryLock()
					} else {
						m.Lock()
					}
					if locked {
						if atomic.AddInt32(&inM, 1) != 1 {
							s.Violf("C31/mutex/exclusion", "two goroutines hold the Mutex at once")
						}
						if pick(3) == 0 {
							time.Sleep(time.Millisecond)
						}
						atomic.AddInt32(&inM, -1)
						m.Unlock()
					}
				case 2:
					locked := true
					if pick(3) == 0 {
						locked = rw.TryLock()
					} else {
						rw.Lock()
					}
					if locked {
						if atomic.AddInt32(&writers, 1) != 1 || atomic.LoadInt32(&readers) != 0 {
							s.Violf("C31/rwmutex/writer-not-alone", "a writer holds the RWMutex together with %d writers and %d readers", atomic.LoadInt32(&writers), atomic.LoadInt32(&readers))
						}
						if pick(3) == 0 {
							time.Sleep(time.Millisecond)
						}
						atomic.AddInt32(&writers, -1)
						rw.Unlock()
					}
				default:
					locked := true
					if pick(4) == 0 {
						locked = rw.TryRLock()
					} else {
						rw.RLock()
					}
					if locked {
						atomic.AddInt32(&readers, 1)
						if atomic.LoadInt32(&writers) != 0 {
							s.Violf("C31/rwmutex/reader-with-writer", "a reader holds the RWMutex while a writer holds it")
						}
						if pick(3) == 0 {
							time.Sleep(time.Millisecond)
						}
						atomic.AddInt32(&readers, -1)
						rw.RUnlock()
					}
				}
			}
		}()
	}
	waitAll(s, &wg, "C31/mutex/deadlock", "Mutex/RWMutex users")
	_ = fmt.Sprint
	_ = sort.Ints
}
