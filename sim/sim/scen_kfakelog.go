package sim

import (
	"fmt"
	"hash/crc32"
	"sort"
	"time"

	"github.com/twmb/franz-go/pkg/kbin"
	"github.com/twmb/franz-go/pkg/kfake"
	"github.com/twmb/franz-go/pkg/kmsg"

	"verifsim/plan"
)

func init() { Scenarios["kfakelog"] = scenKfakeLog }

// Scenario kfakelog (C32): raw protocol clients (the simulator's own, no kgo)
// issue a generated history against kfake - plain, idempotent and
// transactional produce with crafted sequences (next, retry, retry of an
// older batch, gap, rewind), InitProducerID, AddPartitionsToTxn, EndTxn,
// DeleteRecords, ListOffsets, Fetch with and without sessions, in both
// isolation levels - one request at a time, so that kfake's processing order
// is the issue order, and a small reference model of a Kafka partition log is
// stepped with every response. The model follows kfake where Kafka's
// behaviour depends on coordinator timing (which error a refused request
// gets) and checks what the property states on every successful outcome.

type klBatch struct {
	base    int64
	n       int32
	pid     int64
	epoch   int16
	seq     int32
	txn     bool
	control bool
	commit  bool
	vals    []string
}

func (b *klBatch) last() int64 { return b.base + int64(b.n) - 1 }

type klTxn struct {
	pid   int64
	parts map[int32]int64 // partition -> first offset of this transaction
}

type klAborted struct {
	pid           int64
	first, marker int64
}

type klPart struct {
	log     []*klBatch
	hwm     int64
	start   int64
	seqs    map[int64]*seqState
	aborted []klAborted
}

type klProducer struct {
	txnID   string
	pid     int64
	epoch   int16
	next    map[int32]int32    // partition -> next sequence the harness would send
	sent    map[int32][]klSent // partition -> batches sent and accepted, oldest first
	added   map[int32]bool
	hasInit bool
}

type klSent struct {
	seq  int32
	vals []string
}

type klSession struct {
	id      int32
	epoch   int32
	offs    map[int32]int64 // partition -> fetch offset the broker knows
	pending map[int32]int64 // offsets advanced since the last request
	lastHWM map[int32]int64
	iso     int8
}

type klState struct {
	s       *Sim
	topic   string
	leaders map[int32]int32
	parts   map[int32]*klPart
	open    map[int64]*klTxn
	prods   map[int64]*klProducer // slot -> producer
	sess    map[int64]*klSession
	cli     *RawCli
	nval    int
}

func (m *klState) part(p int32) *klPart {
	x := m.parts[p]
	if x == nil {
		x = &klPart{seqs: map[int64]*seqState{}}
		m.parts[p] = x
	}
	return x
}

func (m *klState) lso(p int32) int64 {
	x := m.part(p)
	l := x.hwm
	for _, t := range m.open {
		if f, ok := t.parts[p]; ok && f >= 0 && f < l {
			l = f
		}
	}
	return l
}

// committedView lists the values a read_committed reader may see in
// [from, upTo): records of non-transactional batches and of committed
// transactions below the last stable offset.
func (m *klState) committedView(p int32, from, upTo int64) []string {
	x := m.part(p)
	var out []string
	for _, b := range x.log {
		if b.control || b.last() < from || b.base >= upTo || b.base < x.start && b.last() < x.start {
			continue
		}
		if b.txn {
			ab := false
			for _, a := range x.aborted {
				if a.pid == b.pid && b.base >= a.first && b.base < a.marker {
					ab = true
				}
			}
			if ab {
				continue
			}
		}
		for i, v := range b.vals {
			if o := b.base + int64(i); o >= from && o < upTo {
				out = append(out, v)
			}
		}
	}
	return out
}

func klEncodeBatch(pid int64, epoch int16, seq int32, txn bool, vals []string, ts int64) []byte {
	var recs []byte
	for i, v := range vals {
		var r []byte
		r = append(r, 0) // attributes
		r = kbin.AppendVarlong(r, 0)
		r = kbin.AppendVarint(r, int32(i))
		r = kbin.AppendVarint(r, -1) // null key
		r = kbin.AppendVarint(r, int32(len(v)))
		r = append(r, v...)
		r = kbin.AppendVarint(r, 0) // headers
		recs = kbin.AppendVarint(recs, int32(len(r)))
		recs = append(recs, r...)
	}
	attrs := int16(0)
	if txn {
		attrs |= 0x10
	}
	var b []byte
	b = kbin.AppendInt64(b, 0)  // first offset
	b = kbin.AppendInt32(b, 0)  // length, patched
	b = kbin.AppendInt32(b, -1) // partition leader epoch
	b = append(b, 2)            // magic
	b = kbin.AppendInt32(b, 0)  // crc, patched
	crcStart := len(b)
	b = kbin.AppendInt16(b, attrs)
	b = kbin.AppendInt32(b, int32(len(vals)-1))
	b = kbin.AppendInt64(b, ts)
	b = kbin.AppendInt64(b, ts)
	b = kbin.AppendInt64(b, pid)
	b = kbin.AppendInt16(b, epoch)
	b = kbin.AppendInt32(b, seq)
	b = kbin.AppendInt32(b, int32(len(vals)))
	b = append(b, recs...)
	l := uint32(len(b) - 12)
	b[8], b[9], b[10], b[11] = byte(l>>24), byte(l>>16), byte(l>>8), byte(l)
	c := crc32.Checksum(b[crcStart:], castagnoli)
	b[17], b[18], b[19], b[20] = byte(c>>24), byte(c>>16), byte(c>>8), byte(c)
	return b
}

func (m *klState) do(p int32, req kmsg.Request, ver int16) kmsg.Response {
	b := m.leaders[p]
	if p < 0 {
		b = 0
	}
	if ver >= 0 {
		req.SetVersion(ver)
		resp, err := m.cli.roundTripV(b, req)
		if err != nil {
			m.s.Logf("kfakelog: request key %d failed: %v", req.Key(), err)
			return nil
		}
		return resp
	}
	resp, err := m.cli.Do(b, req)
	if err != nil {
		m.s.Logf("kfakelog: request key %d failed: %v", req.Key(), err)
		return nil
	}
	return resp
}

func (m *klState) coordinator(key string, typ int8) int32 {
	r := kmsg.NewPtrFindCoordinatorRequest()
	r.CoordinatorKey, r.CoordinatorType = key, typ
	r.CoordinatorKeys = []string{key}
	resp, err := m.cli.Do(0, r)
	if err != nil {
		return 0
	}
	fr := resp.(*kmsg.FindCoordinatorResponse)
	if len(fr.Coordinators) > 0 {
		return fr.Coordinators[0].NodeID
	}
	return fr.NodeID
}

func (m *klState) appendMarkers(t *klTxn, commit bool) {
	var ps []int32
	for p := range t.parts {
		ps = append(ps, p)
	}
	sort.Slice(ps, func(i, j int) bool { return ps[i] < ps[j] })
	for _, p := range ps {
		x := m.part(p)
		x.log = append(x.log, &klBatch{base: x.hwm, n: 1, pid: t.pid, txn: true, control: true, commit: commit})
		if !commit && t.parts[p] >= 0 {
			x.aborted = append(x.aborted, klAborted{pid: t.pid, first: t.parts[p], marker: x.hwm})
		}
		x.hwm++
	}
	delete(m.open, t.pid)
}

func scenKfakeLog(s *Sim) {
	p := s.P
	nb := int(p.Knob("nbroker", 1))
	nparts := int32(p.Knob("nparts", 2))
	opts := []kfake.Opt{kfake.SeedTopics(nparts, "t0")}
	if v := p.Knob("session_slots", 0); v > 0 {
		opts = append(opts, kfake.BrokerConfigs(map[string]string{"max.incremental.fetch.session.cache.slots": fmt.Sprint(v)}))
	}
	s.StartCluster(nb, opts...)
	m := &klState{s: s, topic: "t0", parts: map[int32]*klPart{}, open: map[int64]*klTxn{}, prods: map[int64]*klProducer{}, sess: map[int64]*klSession{}, cli: s.Raw("raw0")}
	defer m.cli.Close()
	var err error
	if m.leaders, err = m.cli.Leaders("t0"); err != nil {
		s.OutOfScope("no leaders: " + err.Error())
		return
	}
	ops := 0
	for _, a := range p.Actors {
		for _, op := range a.Ops {
			ops++
			m.step(op, nparts)
			if len(s.viol) > 3 {
				break
			}
		}
	}
	// closing pass: every partition read back in both isolation levels
	for q := int32(0); q < nparts; q++ {
		m.step(plan.Op{Kind: "fetch", A: -1, B: int64(q), C: 0, D: 0}, nparts)
		m.step(plan.Op{Kind: "fetch", A: -1, B: int64(q), C: 0, D: 1}, nparts)
		m.step(plan.Op{Kind: "listoffsets", B: int64(q), A: -1, D: 1}, nparts)
	}
	s.Count("ops", int64(ops))
	s.Count("nontrivial", 1)
}

func (m *klState) step(op plan.Op, nparts int32) {
	s := m.s
	part := int32(op.B) % nparts
	switch op.Kind {
	case "sleep":
		time.Sleep(time.Duration(op.A) * time.Millisecond)
	case "init":
		pr := m.prods[op.A]
		if pr == nil {
			pr = &klProducer{next: map[int32]int32{}, sent: map[int32][]klSent{}, added: map[int32]bool{}}
			if op.S == "txn" {
				pr.txnID = fmt.Sprintf("x%d", op.A)
			}
			m.prods[op.A] = pr
		}
		r := kmsg.NewPtrInitProducerIDRequest()
		r.ProducerID, r.ProducerEpoch = -1, -1
		r.TransactionTimeoutMillis = int32(s.P.Knob("txn_timeout_ms", 300000))
		b := int32(0)
		if pr.txnID != "" {
			r.TransactionalID = &pr.txnID
			b = m.coordinator(pr.txnID, 1)
		}
		r.SetVersion(4)
		resp, err := m.cli.roundTripV(b, r)
		if err != nil {
			return
		}
		ir := resp.(*kmsg.InitProducerIDResponse)
		if ir.ErrorCode != 0 {
			s.Count("init.error", 1)
			return
		}
		s.Count("init.ok", 1)
		// a new instance of a transactional id aborts what the old one left open
		if pr.hasInit && pr.txnID != "" {
			if t := m.open[pr.pid]; t != nil {
				m.appendMarkers(t, false)
				s.Probe("init_aborted_open_txn")
			}
		}
		if pr.hasInit && ir.ProducerID == pr.pid && ir.ProducerEpoch <= pr.epoch && pr.txnID != "" {
			s.Violf("C32/init/epoch-not-bumped", "InitProducerID for %s returned epoch %d, the previous instance had %d", pr.txnID, ir.ProducerEpoch, pr.epoch)
		}
		pr.pid, pr.epoch, pr.hasInit = ir.ProducerID, ir.ProducerEpoch, true
		pr.next, pr.sent, pr.added = map[int32]int32{}, map[int32][]klSent{}, map[int32]bool{}
	case "addparts":
		pr := m.prods[op.A]
		if pr == nil || !pr.hasInit || pr.txnID == "" {
			return
		}
		r := kmsg.NewPtrAddPartitionsToTxnRequest()
		r.TransactionalID, r.ProducerID, r.ProducerEpoch = pr.txnID, pr.pid, pr.epoch
		t := kmsg.NewAddPartitionsToTxnRequestTopic()
		t.Topic, t.Partitions = m.topic, []int32{part}
		r.Topics = append(r.Topics, t)
		r.SetVersion(3)
		resp, err := m.cli.roundTripV(m.coordinator(pr.txnID, 1), r)
		if err != nil {
			return
		}
		ar := resp.(*kmsg.AddPartitionsToTxnResponse)
		if len(ar.Topics) == 1 && len(ar.Topics[0].Partitions) == 1 && ar.Topics[0].Partitions[0].ErrorCode == 0 {
			pr.added[part] = true
			s.Count("addparts.ok", 1)
			// the marker of the transaction's end goes to every partition
			// added to it, with or without data
			t := m.open[pr.pid]
			if t == nil {
				t = &klTxn{pid: pr.pid, parts: map[int32]int64{}}
				m.open[pr.pid] = t
			}
			if _, ok := t.parts[part]; !ok {
				t.parts[part] = -1
			}
		} else {
			s.Count("addparts.error", 1)
		}
	case "endtxn":
		pr := m.prods[op.A]
		if pr == nil || !pr.hasInit || pr.txnID == "" {
			return
		}
		r := kmsg.NewPtrEndTxnRequest()
		r.TransactionalID, r.ProducerID, r.ProducerEpoch, r.Commit = pr.txnID, pr.pid, pr.epoch, op.B != 0
		r.SetVersion(3)
		resp, err := m.cli.roundTripV(m.coordinator(pr.txnID, 1), r)
		if err != nil {
			return
		}
		er := resp.(*kmsg.EndTxnResponse)
		if er.ErrorCode != 0 {
			s.Count("endtxn.error", 1)
			return
		}
		s.Count("endtxn.ok", 1)
		if t := m.open[pr.pid]; t != nil {
			m.appendMarkers(t, op.B != 0)
		}
		pr.added = map[int32]bool{}
	case "produce":
		m.produce(op, part)
	case "delrecs":
		x := m.part(part)
		off := int64(-1)
		if op.C >= 0 {
			off = x.start + (x.hwm-x.start)*op.C/100
		}
		if op.C > 100 {
			off = x.hwm + 3 // beyond the end
		}
		r := kmsg.NewPtrDeleteRecordsRequest()
		r.TimeoutMillis = 1000
		t := kmsg.NewDeleteRecordsRequestTopic()
		t.Topic = m.topic
		rp := kmsg.NewDeleteRecordsRequestTopicPartition()
		rp.Partition, rp.Offset = part, off
		t.Partitions = append(t.Partitions, rp)
		r.Topics = append(r.Topics, t)
		resp := m.do(part, r, 2)
		if resp == nil {
			return
		}
		dr := resp.(*kmsg.DeleteRecordsResponse)
		if len(dr.Topics) != 1 || len(dr.Topics[0].Partitions) != 1 {
			s.Violf("C32/delete-records/shape", "DeleteRecords response does not hold the one requested partition")
			return
		}
		rp2 := dr.Topics[0].Partitions[0]
		if rp2.ErrorCode != 0 {
			s.Count("delrecs.error", 1)
			if off >= -1 && off <= x.hwm && !(off < x.start && off >= 0) {
				s.Violf("C32/delete-records/refused", "DeleteRecords of %s/%d to offset %d (log [%d,%d)) was refused with error %d", m.topic, part, off, x.start, x.hwm, rp2.ErrorCode)
			}
			return
		}
		s.Count("delrecs.ok", 1)
		want := off
		if off == -1 {
			want = x.hwm
		}
		if want < x.start {
			want = x.start
		}
		if off > x.hwm {
			s.Violf("C32/delete-records/beyond-end", "DeleteRecords of %s/%d to offset %d beyond the high watermark %d succeeded", m.topic, part, off, x.hwm)
			return
		}
		x.start = want
		if rp2.LowWatermark != x.start {
			s.Violf("C32/delete-records/low-watermark", "DeleteRecords of %s/%d to %d answered low watermark %d, expected %d", m.topic, part, off, rp2.LowWatermark, x.start)
			x.start = rp2.LowWatermark
		}
	case "listoffsets":
		x := m.part(part)
		r := kmsg.NewPtrListOffsetsRequest()
		r.ReplicaID, r.IsolationLevel = -1, int8(op.D)
		t := kmsg.NewListOffsetsRequestTopic()
		t.Topic = m.topic
		rp := kmsg.NewListOffsetsRequestTopicPartition()
		rp.Partition, rp.Timestamp, rp.CurrentLeaderEpoch = part, op.A, -1
		t.Partitions = append(t.Partitions, rp)
		r.Topics = append(r.Topics, t)
		resp := m.do(part, r, 7)
		if resp == nil {
			return
		}
		lr := resp.(*kmsg.ListOffsetsResponse)
		if len(lr.Topics) != 1 || len(lr.Topics[0].Partitions) != 1 || lr.Topics[0].Partitions[0].ErrorCode != 0 {
			s.Count("listoffsets.error", 1)
			return
		}
		got := lr.Topics[0].Partitions[0].Offset
		want := x.hwm
		what := "high watermark"
		if op.A == -2 {
			want, what = x.start, "log start"
		} else if op.D == 1 {
			want, what = m.lso(part), "last stable offset"
		}
		s.Count("listoffsets.ok", 1)
		if got != want {
			s.Violf("C32/list-offsets/"+map[bool]string{true: "start", false: "end"}[op.A == -2], "ListOffsets(%d, isolation %d) of %s/%d answered %d, the %s is %d (log [%d,%d), LSO %d)", op.A, op.D, m.topic, part, got, what, want, x.start, x.hwm, m.lso(part))
		}
	case "fetch":
		m.fetch(op, part, nparts)
	}
}

func (m *klState) produce(op plan.Op, part int32) {
	s := m.s
	x := m.part(part)
	n := int(op.C)
	if n <= 0 {
		n = 1
	}
	var vals []string
	for i := 0; i < n; i++ {
		m.nval++
		vals = append(vals, fmt.Sprintf("v%d", m.nval))
	}
	pid, epoch, seq, txn := int64(-1), int16(-1), int32(-1), false
	var pr *klProducer
	mode := op.D
	if op.A >= 0 {
		pr = m.prods[op.A]
		if pr == nil || !pr.hasInit {
			return
		}
		pid, epoch, txn = pr.pid, pr.epoch, pr.txnID != ""
		seq = pr.next[part]
		hist := pr.sent[part]
		switch {
		case mode == 1 && len(hist) > 0: // retry of the last batch
			seq, vals = hist[len(hist)-1].seq, hist[len(hist)-1].vals
		case mode == 2: // gap
			seq = seqAdd(seq, 3)
		case mode == 3 && len(hist) > 0: // retry of an older batch
			k := len(hist) - 1 - int(op.C)%len(hist)
			seq, vals = hist[k].seq, hist[k].vals
		case mode == 4 && seq > 0: // rewind with new contents
			seq--
		default:
			mode = 0
		}
	}
	r := kmsg.NewPtrProduceRequest()
	r.Acks, r.TimeoutMillis = -1, 1000
	if txn {
		r.TransactionID = &pr.txnID
	}
	t := kmsg.NewProduceRequestTopic()
	t.Topic = m.topic
	rp := kmsg.NewProduceRequestTopicPartition()
	rp.Partition = part
	rp.Records = klEncodeBatch(pid, epoch, seq, txn, vals, 1000000+int64(m.nval))
	t.Partitions = append(t.Partitions, rp)
	r.Topics = append(r.Topics, t)
	resp := m.do(part, r, 11)
	if resp == nil {
		return
	}
	prr := resp.(*kmsg.ProduceResponse)
	if len(prr.Topics) != 1 || len(prr.Topics[0].Partitions) != 1 {
		s.Violf("C32/produce/shape", "produce response does not hold the one partition produced to")
		return
	}
	res := prr.Topics[0].Partitions[0]
	desc := fmt.Sprintf("produce to %s/%d pid=%d epoch=%d seq=%d n=%d txn=%v (mode %d)", m.topic, part, pid, epoch, seq, len(vals), txn, mode)
	s.Count(fmt.Sprintf("produce.mode%d.code%d", mode, res.ErrorCode), 1)
	if pr == nil {
		if res.ErrorCode != 0 {
			s.Violf("C32/produce/plain-refused", "%s: refused with error %d", desc, res.ErrorCode)
			return
		}
		if res.BaseOffset != x.hwm {
			s.Violf("C32/produce/offset", "%s: appended at offset %d, the high watermark was %d", desc, res.BaseOffset, x.hwm)
		}
		x.log = append(x.log, &klBatch{base: res.BaseOffset, n: int32(len(vals)), pid: -1, vals: vals})
		x.hwm = res.BaseOffset + int64(len(vals))
		return
	}
	// idempotent / transactional: the reference producer state
	st := x.seqs[pid]
	if st == nil {
		st = &seqState{}
		x.seqs[pid] = st
	}
	nx := seqAdd(seq, int32(len(vals)))
	switch res.ErrorCode {
	case 0:
	case 45, 46:
		// refused on sequence grounds: legal unless it is the expected
		// next sequence or a retry inside the window
		if !st.seen || epoch != st.epoch {
			if !st.seen || seq == 0 {
				s.Violf("C32/produce/rejected-first", "%s: first batch of a producer epoch refused with error %d", desc, res.ErrorCode)
			}
			return
		}
		for _, e := range st.win {
			if e.first == seq && e.next == nx {
				s.Violf("C32/produce/duplicate-rejected", "%s: a retry of one of the last five appended batches (offset %d) was refused with error %d", desc, e.off, res.ErrorCode)
				return
			}
		}
		if seq == st.next {
			s.Violf("C32/produce/rejected-next", "%s: the next expected sequence was refused with error %d", desc, res.ErrorCode)
		}
		return
	default:
		return // transaction state errors etc.: the model follows
	}
	// accepted
	if st.seen && epoch == st.epoch {
		for _, e := range st.win {
			if e.first == seq && e.next == nx {
				if res.BaseOffset != e.off {
					s.Violf("C32/produce/duplicate-offset", "%s: a retry of the batch appended at offset %d was answered with offset %d", desc, e.off, res.BaseOffset)
				}
				s.Probe("duplicate_answered_with_original_offset")
				return // not appended again
			}
		}
		if seq != st.next {
			s.Violf("C32/produce/accepted-wrong-sequence", "%s: appended at %d although the next expected sequence is %d and it is no retry of the last five batches", desc, res.BaseOffset, st.next)
		}
	} else {
		if st.seen && seq != 0 && epoch != st.epoch {
			s.Violf("C32/produce/accepted-wrong-sequence", "%s: accepted as the first batch of a new epoch with a sequence other than 0", desc)
		}
		*st = seqState{seen: true, epoch: epoch}
	}
	if res.BaseOffset != x.hwm {
		s.Violf("C32/produce/offset", "%s: appended at offset %d, the high watermark was %d", desc, res.BaseOffset, x.hwm)
	}
	st.next = nx
	st.win = append(st.win, seqEnt{seq, nx, res.BaseOffset})
	if len(st.win) > 5 {
		st.win = st.win[1:]
	}
	x.log = append(x.log, &klBatch{base: res.BaseOffset, n: int32(len(vals)), pid: pid, epoch: epoch, seq: seq, txn: txn, vals: vals})
	x.hwm = res.BaseOffset + int64(len(vals))
	if mode == 0 {
		pr.next[part] = nx
		pr.sent[part] = append(pr.sent[part], klSent{seq, vals})
	} else {
		pr.next[part] = nx
		pr.sent[part] = append(pr.sent[part], klSent{seq, vals})
	}
	if txn {
		t := m.open[pid]
		if t == nil {
			t = &klTxn{pid: pid, parts: map[int32]int64{}}
			m.open[pid] = t
		}
		if f, ok := t.parts[part]; !ok || f < 0 {
			t.parts[part] = res.BaseOffset
		}
		if !pr.added[part] {
			s.Probe("transactional_produce_accepted_without_addpartitions")
		}
	}
}

func (m *klState) fetch(op plan.Op, part int32, nparts int32) {
	s := m.s
	iso := int8(op.D & 1)
	// D>>1: the per-partition byte limit (0: everything readable; 1: one
	// batch; 2: a few batches) - a response may end anywhere in the log
	pmax := []int32{1 << 20, 1, 200}[int(op.D>>1)%3]
	if op.A >= 0 {
		// session fetches span several partitions; only the first partition
		// with data is guaranteed a batch larger than its limit, so a small
		// limit would make omissions legitimate
		pmax = 1 << 20
	}
	r := kmsg.NewPtrFetchRequest()
	r.ReplicaID, r.MaxWaitMillis, r.MinBytes, r.MaxBytes, r.IsolationLevel = -1, 50, 1, 8<<20, iso
	r.SessionID, r.SessionEpoch = 0, -1
	var ses *klSession
	offs := map[int32]int64{}
	if op.A >= 0 {
		ses = m.sess[op.A]
		if ses == nil || op.C == 1000 {
			// (re)create: a full fetch with epoch 0 over all partitions
			ses = &klSession{offs: map[int32]int64{}, pending: map[int32]int64{}, lastHWM: map[int32]int64{}, iso: iso}
			m.sess[op.A] = ses
			for q := int32(0); q < nparts; q++ {
				if m.leaders[q] == m.leaders[part] {
					ses.offs[q] = m.part(q).start
					offs[q] = ses.offs[q]
				}
			}
			r.SessionEpoch = 0
		} else {
			r.SessionID, r.SessionEpoch, r.IsolationLevel = ses.id, ses.epoch, ses.iso
			iso = ses.iso
			for q, o := range ses.pending {
				offs[q] = o
				ses.offs[q] = o
			}
			ses.pending = map[int32]int64{}
		}
	} else {
		x := m.part(part)
		o := x.start + (x.hwm-x.start)*op.C/100
		switch {
		case op.C < 0:
			o = x.start - 1
		case op.C > 100:
			o = x.hwm + 2
		}
		if o < 0 {
			o = 0
		}
		offs[part] = o
	}
	var qs []int32
	for q := range offs {
		qs = append(qs, q)
	}
	sort.Slice(qs, func(i, j int) bool { return qs[i] < qs[j] })
	t := kmsg.NewFetchRequestTopic()
	t.Topic = m.topic
	for _, q := range qs {
		rp := kmsg.NewFetchRequestTopicPartition()
		rp.Partition, rp.FetchOffset, rp.CurrentLeaderEpoch, rp.LogStartOffset, rp.PartitionMaxBytes = q, offs[q], -1, -1, pmax
		t.Partitions = append(t.Partitions, rp)
	}
	if len(t.Partitions) > 0 {
		r.Topics = append(r.Topics, t)
	}
	resp := m.do(part, r, 12)
	if resp == nil {
		return
	}
	fr := resp.(*kmsg.FetchResponse)
	if fr.ErrorCode != 0 {
		s.Count(fmt.Sprintf("fetch.toplevel_error_%d", fr.ErrorCode), 1)
		if ses != nil {
			delete(m.sess, op.A) // evicted or epoch trouble: start over next time
		}
		return
	}
	got := map[int32]*kmsg.FetchResponseTopicPartition{}
	for i := range fr.Topics {
		for j := range fr.Topics[i].Partitions {
			pp := &fr.Topics[i].Partitions[j]
			got[pp.Partition] = pp
		}
	}
	if ses != nil {
		if r.SessionEpoch == 0 {
			ses.id = fr.SessionID
			ses.epoch = 1
			if fr.SessionID == 0 {
				s.Count("fetch.session_not_created", 1)
				delete(m.sess, op.A)
				ses = nil
			} else {
				s.Count("fetch.session_created", 1)
			}
		} else {
			ses.epoch++
			s.Count("fetch.incremental", 1)
		}
	}
	// which partitions must be present
	check := qs
	if ses != nil {
		check = check[:0]
		for q := range ses.offs {
			check = append(check, q)
		}
		sort.Slice(check, func(i, j int) bool { return check[i] < check[j] })
	}
	for _, q := range check {
		x := m.part(q)
		fo := offs[q]
		if ses != nil {
			fo = ses.offs[q]
		}
		limit := x.hwm
		if iso == 1 {
			limit = m.lso(q)
		}
		pp := got[q]
		if pp == nil {
			if ses == nil || r.SessionEpoch == 0 {
				s.Violf("C32/fetch/partition-missing", "fetch response lacks requested partition %s/%d", m.topic, q)
			} else if fo >= x.start && fo < limit {
				s.Violf("C32/fetch/incremental-omitted-changed", "incremental fetch (session %d epoch %d) omitted %s/%d although it has data: fetch offset %d, readable up to %d", ses.id, r.SessionEpoch, m.topic, q, fo, limit)
			} else if ses.lastHWM[q] != x.hwm {
				s.Violf("C32/fetch/incremental-omitted-changed", "incremental fetch (session %d epoch %d) omitted %s/%d although its high watermark moved from %d to %d", ses.id, r.SessionEpoch, m.topic, q, ses.lastHWM[q], x.hwm)
			}
			continue
		}
		if pp.ErrorCode != 0 {
			s.Count(fmt.Sprintf("fetch.partition_error_%d", pp.ErrorCode), 1)
			if pp.ErrorCode == 1 && fo >= x.start && fo <= x.hwm {
				s.Violf("C32/fetch/out-of-range", "fetch of %s/%d at offset %d inside the log [%d,%d] answered OFFSET_OUT_OF_RANGE", m.topic, q, fo, x.start, x.hwm)
			}
			if ses != nil && pp.ErrorCode == 1 {
				ses.pending[q] = x.start
			}
			continue
		}
		if fo < x.start || fo > x.hwm {
			s.Violf("C32/fetch/out-of-range-accepted", "fetch of %s/%d at offset %d outside the log [%d,%d] was answered without error", m.topic, q, fo, x.start, x.hwm)
			continue
		}
		s.Count("fetch.partition_ok", 1)
		if pp.HighWatermark != x.hwm {
			s.Violf("C32/fetch/high-watermark", "fetch of %s/%d reports high watermark %d, the log ends at %d", m.topic, q, pp.HighWatermark, x.hwm)
		}
		if pp.LastStableOffset != m.lso(q) {
			s.Violf("C32/fetch/last-stable-offset", "fetch of %s/%d reports last stable offset %d, expected %d (high watermark %d, open transactions %v)", m.topic, q, pp.LastStableOffset, m.lso(q), x.hwm, m.openDesc(q))
		}
		if pp.LastStableOffset > pp.HighWatermark {
			s.Violf("C32/fetch/lso-above-hwm", "fetch of %s/%d: last stable offset %d above high watermark %d", m.topic, q, pp.LastStableOffset, pp.HighWatermark)
		}
		if pp.LogStartOffset != x.start {
			s.Violf("C32/fetch/log-start", "fetch of %s/%d reports log start %d, expected %d", m.topic, q, pp.LogStartOffset, x.start)
		}
		if ses != nil {
			ses.lastHWM[q] = x.hwm
		}
		bs, err := RefDecodeBatches(pp.RecordBatches)
		if err != nil {
			s.Violf("C32/fetch/decode", "fetch of %s/%d: record batches do not decode: %v", m.topic, q, err)
			continue
		}
		if len(bs) == 0 {
			if fo < limit {
				s.Violf("C32/fetch/empty", "fetch of %s/%d at offset %d returned nothing although data is readable up to %d", m.topic, q, fo, limit)
			}
			continue
		}
		// batches: the first contains the fetch offset, then contiguous, all known
		if bs[0].BaseOffset > fo || bs[0].LastOffset() < fo {
			s.Violf("C32/fetch/first-batch", "fetch of %s/%d at offset %d: first returned batch covers [%d,%d]", m.topic, q, fo, bs[0].BaseOffset, bs[0].LastOffset())
		}
		prev := int64(-1)
		var visible []string
		abortedNow := map[int64]bool{}
		abl := append([]kmsg.FetchResponseTopicPartitionAbortedTransaction(nil), pp.AbortedTransactions...)
		sort.Slice(abl, func(i, j int) bool { return abl[i].FirstOffset < abl[j].FirstOffset })
		for bi, b := range bs {
			if bi > 0 && b.BaseOffset != prev+1 {
				s.Violf("C32/fetch/contiguous", "fetch of %s/%d: batch at %d follows a batch ending at %d", m.topic, q, b.BaseOffset, prev)
			}
			prev = b.LastOffset()
			var mb *klBatch
			for _, lb := range x.log {
				if lb.base == b.BaseOffset {
					mb = lb
				}
			}
			if mb == nil || mb.last() != b.LastOffset() || mb.control != b.Control() {
				s.Violf("C32/fetch/unknown-batch", "fetch of %s/%d returned a batch [%d,%d] control=%v that the history never appended there", m.topic, q, b.BaseOffset, b.LastOffset(), b.Control())
				continue
			}
			if iso == 1 && b.BaseOffset >= limit {
				s.Violf("C32/fetch/beyond-lso", "read_committed fetch of %s/%d returned a batch at %d, at or above the last stable offset %d", m.topic, q, b.BaseOffset, limit)
			}
			// the standard consumer algorithm over the aborted list
			for len(abl) > 0 && abl[0].FirstOffset <= b.LastOffset() {
				abortedNow[abl[0].ProducerID] = true
				abl = abl[1:]
			}
			if b.Control() {
				if !mb.commit {
					delete(abortedNow, b.ProducerID)
				}
				continue
			}
			if iso == 1 && b.Transactional() && abortedNow[b.ProducerID] {
				continue
			}
			for i, rec := range b.Records {
				if o := b.BaseOffset + int64(i); o >= fo {
					visible = append(visible, string(rec.Value))
				}
				if i < len(mb.vals) && string(rec.Value) != mb.vals[i] {
					s.Violf("C32/fetch/contents", "fetch of %s/%d offset %d holds %q, the history appended %q there", m.topic, q, b.BaseOffset+int64(i), rec.Value, mb.vals[i])
				}
			}
		}
		if iso == 1 {
			want := m.committedView(q, fo, prev+1)
			if fmt.Sprint(want) != fmt.Sprint(visible) {
				s.Violf("C32/fetch/read-committed-view", "read_committed fetch of %s/%d from %d to %d: a consumer applying the aborted-transaction list sees %v, the committed data is %v (aborted list %v)", m.topic, q, fo, prev, firstN(visible, 12), firstN(want, 12), pp.AbortedTransactions)
			}
		}
		if ses != nil {
			ses.pending[q] = prev + 1
		}
	}
}

func (m *klState) openDesc(p int32) []string {
	var out []string
	for pid, t := range m.open {
		if f, ok := t.parts[p]; ok && f >= 0 {
			out = append(out, fmt.Sprintf("pid %d from %d", pid, f))
		}
	}
	sort.Strings(out)
	return out
}
