package sim

import (
	"context"
	"fmt"
	"sort"
	"strings"
	"sync"
	"time"

	"github.com/twmb/franz-go/pkg/kfake"
	"github.com/twmb/franz-go/pkg/kgo"

	"verifsim/plan"
)

func init() { Scenarios["eos"] = scenEOS }

type eosMember struct {
	name string
	sess *kgo.GroupTransactSession
	stop chan struct{}
	done chan struct{}
}

type eosState struct {
	s                               *Sim
	mu                              sync.Mutex
	inc                             map[int]int
	live                            map[int]*eosMember
	ntxn, ncommitted, nabortedByEnd int
}

func (es *eosState) newMember(slot int) *eosMember {
	s := es.s
	p := s.P
	name := fmt.Sprintf("e%d.%d", slot, es.inc[slot])
	es.inc[slot]++
	ctx := context.Background()
	mode := p.Knob("mode", 1)
	if mode == 2 {
		ctx = context.WithValue(ctx, "opt_in_kafka_next_gen_balancer_beta", true) //nolint
	}
	opts := append(s.BaseOpts(name),
		kgo.WithContext(ctx),
		kgo.ConsumerGroup("g"),
		kgo.ConsumeTopics("t0"),
		kgo.ConsumeResetOffset(kgo.NewOffset().AtStart()),
		kgo.TransactionalID(fmt.Sprintf("eos-%d", slot)),
		kgo.TransactionTimeout(time.Duration(p.Knob("txn_timeout_ms", 30000))*time.Millisecond),
		kgo.FetchIsolationLevel(kgo.ReadCommitted()),
		kgo.RequireStableFetchOffsets(),
		kgo.RecordPartitioner(kgo.ManualPartitioner()),
		kgo.FetchMaxWait(time.Duration(p.Knob("fetch_max_wait_ms", 500))*time.Millisecond),
		kgo.SessionTimeout(time.Duration(p.Knob("session_ms", 30000))*time.Millisecond),
		kgo.RebalanceTimeout(time.Duration(p.Knob("rebalance_ms", 40000))*time.Millisecond),
		kgo.HeartbeatInterval(time.Duration(p.Knob("heartbeat_ms", 1000))*time.Millisecond),
		balancerOpt(mode),
	)
	sess, err := kgo.NewGroupTransactSession(opts...)
	if err != nil {
		panic(fmt.Sprintf("NewGroupTransactSession: %v", err))
	}
	s.Adopt(name, sess.Client())
	m := &eosMember{name: name, sess: sess, stop: make(chan struct{}), done: make(chan struct{})}
	return m
}

// run is the documented consume-transform-produce loop. It returns true if
// the member hit an error from Begin/End and must be replaced.
func (es *eosState) run(m *eosMember, pattern []plan.Op) (needReplace bool) {
	defer close(m.done)
	s := es.s
	i := 0
	for {
		select {
		case <-m.stop:
			return false
		default:
		}
		op := plan.Op{Kind: "poll", D: 1000}
		if len(pattern) > 0 {
			op = pattern[i%len(pattern)]
			i++
		}
		if op.Kind == "sleep" {
			time.Sleep(time.Duration(op.A) * time.Millisecond)
			continue
		}
		d := op.D
		if d <= 0 {
			d = 1000
		}
		ctx, cancel := context.WithTimeout(context.Background(), time.Duration(d)*time.Millisecond)
		var fs kgo.Fetches
		if op.A > 0 {
			fs = m.sess.PollRecords(ctx, int(op.A))
		} else {
			fs = m.sess.PollFetches(ctx)
		}
		cancel()
		if fs.IsClientClosed() {
			return false
		}
		if fs.NumRecords() == 0 {
			continue
		}
		// the application may take its time between the poll and Begin
		// (the order of the repository's own example: poll, Begin, produce, End)
		if n := s.P.Knob("pre_begin_ms", 0); n > 0 {
			time.Sleep(time.Duration(n) * time.Millisecond)
		}
		if err := m.sess.Begin(); err != nil {
			s.Logf("%s: Begin: %v", m.name, err)
			s.Probe("eos_begin_error")
			return true
		}
		es.mu.Lock()
		es.ntxn++
		es.mu.Unlock()
		fs.EachRecord(func(r *kgo.Record) {
			m.sess.Produce(context.Background(), &kgo.Record{Topic: "t1", Partition: r.Partition, Value: append([]byte("out:"), r.Value...)}, nil)
		})
		if n := s.P.Knob("process_ms", 0); n > 0 {
			time.Sleep(time.Duration(n) * time.Millisecond)
		}
		ectx, ecancel := context.WithTimeout(context.Background(), 3*time.Minute)
		committed, err := m.sess.End(ectx, kgo.TryCommit)
		ecancel()
		if err != nil {
			s.Logf("%s: End: committed=%v err=%v", m.name, committed, err)
			s.Probe("eos_end_error")
			return true
		}
		es.mu.Lock()
		if committed {
			es.ncommitted++
		} else {
			es.nabortedByEnd++
		}
		es.mu.Unlock()
	}
}

func (es *eosState) closeMember(m *eosMember) bool {
	s := es.s
	select {
	case <-m.stop:
	default:
		close(m.stop)
	}
	done := make(chan struct{})
	go func() { s.CloseCl(m.sess.Client(), false); close(done) }()
	select {
	case <-done:
	case <-time.After(s.CloseBoundAtLeast(m.sess.Client(), 5*time.Minute)):
		s.Violf("C13/hang/close-transact-session", "Close of GroupTransactSession member %s did not return within the bound\n%s", m.name, goroutineDump("kgo"))
		return false
	}
	s.Forget(m.name)
	select {
	case <-m.done:
	case <-time.After(4 * time.Minute):
		s.Violf("C13/hang/eos-loop-after-close", "the loop of %s did not end within 4m of Close\n%s", m.name, goroutineDump("kgo"))
		return false
	}
	return true
}

func scenEOS(s *Sim) {
	p := s.P
	nb := int(p.Knob("nbroker", 2))
	nparts := int32(p.Knob("nparts", 3))
	kopts := []kfake.Opt{kfake.SeedTopics(nparts, "t0", "t1")}
	if o := kfakeVersionOpt(p.Knob("kafka_ver", 0)); o != nil {
		kopts = append(kopts, o)
	}
	s.StartCluster(nb, kopts...)
	es := &eosState{s: s, inc: map[int]int{}, live: map[int]*eosMember{}}
	for _, ev := range p.Events {
		ev := ev
		s.At(time.Duration(ev.AtMs)*time.Millisecond, func() {
			switch ev.Kind {
			case "move", "shuffle":
				produceEnvEvent(s, nil, ev, nb, nparts)
			case "rehash":
				s.Cluster.RehashCoordinators()
				s.Count("env.rehash_coordinators", 1)
			}
		})
	}
	s.ScheduleTimedFaults()
	var prodWG sync.WaitGroup
	var churn *plan.Actor
	patterns := map[int][]plan.Op{}
	for ai, a := range p.Actors {
		ai, a := ai, a
		switch {
		case strings.HasPrefix(a.Name, "prod"):
			cl := s.Client(a.Client, kgo.RecordPartitioner(kgo.ManualPartitioner()))
			cst := &consState{s: s, txnOf: map[string]*txnInfo{}, produced: map[string]bool{}}
			prodWG.Add(1)
			go func() { defer prodWG.Done(); cst.produceActor(cl, a.Client, ai, a, false) }()
		case a.Name == "churn":
			churn = &p.Actors[ai]
		case strings.HasPrefix(a.Name, "pattern"):
			var slot int
			fmt.Sscanf(a.Name, "pattern%d", &slot)
			patterns[slot] = a.Ops
		}
	}
	stopping := false
	var smu sync.Mutex
	var start func(slot int)
	start = func(slot int) {
		m := es.newMember(slot)
		es.mu.Lock()
		es.live[slot] = m
		es.mu.Unlock()
		go func() {
			if es.run(m, patterns[slot]) {
				// documented: no error from Begin/End is retryable;
				// close this member and replace it
				smu.Lock()
				st := stopping
				smu.Unlock()
				es.mu.Lock()
				cur := es.live[slot] == m
				es.mu.Unlock()
				if cur && !st {
					if es.closeMember(m) {
						s.Probe("eos_member_replaced")
						smu.Lock()
						st = stopping
						smu.Unlock()
						es.mu.Lock()
						still := es.live[slot] == m
						es.mu.Unlock()
						if still && !st {
							start(slot)
						}
					}
				}
			}
		}()
	}
	stopMember := func(slot int) bool {
		es.mu.Lock()
		m := es.live[slot]
		delete(es.live, slot)
		es.mu.Unlock()
		if m == nil {
			return true
		}
		return es.closeMember(m)
	}
	if churn != nil {
		for _, op := range churn.Ops {
			switch op.Kind {
			case "sleep":
				time.Sleep(time.Duration(op.A) * time.Millisecond)
			case "join":
				es.mu.Lock()
				_, ok := es.live[int(op.A)]
				es.mu.Unlock()
				if !ok {
					start(int(op.A))
					s.Probe("member_join")
				}
			case "close", "leave":
				if !stopMember(int(op.A)) {
					return
				}
				s.Probe("member_close")
			case "restart":
				if !stopMember(int(op.A)) {
					return
				}
				start(int(op.A))
				s.Probe("member_restart")
			}
		}
	}
	es.mu.Lock()
	nlive := len(es.live)
	es.mu.Unlock()
	if nlive == 0 {
		start(0)
	}
	s.Heal()
	pd := make(chan struct{})
	go func() { prodWG.Wait(); close(pd) }()
	select {
	case <-pd:
	case <-time.After(5 * time.Minute):
		s.OutOfScope("input producer did not finish")
	}
	s.Count("nontrivial", 1)
	admin := s.Raw("admin")
	defer admin.Close()
	// the input
	var inputs []string
	inPart := map[string]int32{}
	for q := int32(0); q < nparts; q++ {
		l, err := admin.ReadLog("t0", q)
		if err != nil {
			s.OutOfScope("could not read the input log")
			return
		}
		for _, r := range l.Records {
			inputs = append(inputs, string(r.Value))
			inPart[string(r.Value)] = q
		}
	}
	sort.Strings(inputs)
	view := func() (map[string]int, bool) {
		out := map[string]int{}
		for q := int32(0); q < nparts; q++ {
			l, err := admin.ReadLog("t1", q)
			if err != nil {
				return nil, false
			}
			for _, r := range l.Records {
				if l.Committed[r.Offset] {
					out[string(r.Value)]++
				}
			}
		}
		return out, true
	}
	bound := time.Duration(p.Knob("liveness_bound_ms", 360000)) * time.Millisecond
	// an application that takes its time before every Begin may need that
	// time once per input (a poll can return a single record)
	bound += time.Duration(int64(len(inputs))*(p.Knob("pre_begin_ms", 0)+p.Knob("process_ms", 0))) * time.Millisecond
	var last map[string]int
	// The bound is a bound on STANDSTILL, not on the total: a member that
	// commits one single-record transaction every few seconds over a slow
	// network is live however many inputs remain. The window restarts
	// whenever more inputs have a committed output than before (hard cap: one
	// simulated hour).
	done := func() bool {
		v, ok := view()
		if !ok {
			return false
		}
		last = v
		for _, in := range inputs {
			if v["out:"+in] == 0 {
				return false
			}
		}
		return true
	}
	have := func() int {
		n := 0
		for _, in := range inputs {
			if last["out:"+in] > 0 {
				n++
			}
		}
		return n
	}
	complete := false
	for start, prev := s.Now(), -1; !complete && s.Now()-start < time.Hour; {
		complete = s.WaitFor(bound, 2*time.Second, done)
		if n := have(); n > prev {
			prev = n
			continue
		}
		break
	}
	smu.Lock()
	stopping = true
	smu.Unlock()
	es.mu.Lock()
	var slots []int
	for sl := range es.live {
		slots = append(slots, sl)
	}
	es.mu.Unlock()
	sort.Ints(slots)
	for _, sl := range slots {
		if !stopMember(sl) {
			return
		}
	}
	// let a transaction left open by a closed member time out, then judge
	time.Sleep(time.Duration(p.Knob("txn_timeout_ms", 30000)+5000) * time.Millisecond)
	if v, ok := view(); ok {
		last = v
	}
	dups, missing := 0, 0
	var exDup, exMiss string
	for _, in := range inputs {
		switch n := last["out:"+in]; {
		case n == 0:
			missing++
			if exMiss == "" {
				exMiss = in
			}
		case n > 1:
			dups++
			if exDup == "" {
				exDup = fmt.Sprintf("%s x%d", in, n)
			}
		}
	}
	for v, n := range last {
		if !strings.HasPrefix(v, "out:") || inPart[strings.TrimPrefix(v, "out:")] < 0 {
			s.Violf("C10/unknown-output", "output %q x%d does not correspond to any input", v, n)
		} else if _, ok := inPart[strings.TrimPrefix(v, "out:")]; !ok {
			s.Violf("C10/unknown-output", "output %q x%d does not correspond to any input", v, n)
		}
	}
	if dups > 0 {
		s.Violf("C10/duplicate-output", "%d of %d inputs have more than one output in the read_committed view (e.g. %s)", dups, len(inputs), exDup)
	}
	if missing > 0 && !complete {
		s.Violf("C10/missing-output", "%d of %d inputs have no committed output %v after heal with a live member (e.g. %s); transactions begun=%d committed=%d aborted-by-End=%d", missing, len(inputs), bound, exMiss, es.ntxn, es.ncommitted, es.nabortedByEnd)
	}
	s.Count("eos.inputs", int64(len(inputs)))
	s.Count("eos.txn_committed", int64(es.ncommitted))
	s.Count("eos.txn_aborted_by_end", int64(es.nabortedByEnd))
}
