package sim

import (
	"fmt"
	"strings"

	"github.com/twmb/franz-go/pkg/kmsg"
)

// summarize renders a request or response compactly for the in-memory log.
func summarize(s *Sim, m any) string {
	switch r := m.(type) {
	case nil:
		return "<undecodable>"
	case *kmsg.ProduceRequest:
		var b strings.Builder
		fmt.Fprintf(&b, "Produce v%d acks=%d", r.Version, r.Acks)
		for _, t := range r.Topics {
			for _, p := range t.Partitions {
				bs, _ := RefDecodeBatches(p.Records)
				for _, x := range bs {
					fmt.Fprintf(&b, " %s/%d{pid=%d e=%d seq=%d n=%d}", s.reqTopic(t.Topic, t.TopicID), p.Partition, x.ProducerID%1000, x.ProducerEpoch, x.BaseSequence, x.NumRecords)
				}
			}
		}
		return b.String()
	case *kmsg.ProduceResponse:
		var b strings.Builder
		b.WriteString("ProduceResp")
		for _, t := range r.Topics {
			for _, p := range t.Partitions {
				fmt.Fprintf(&b, " %s/%d{err=%d base=%d}", s.reqTopic(t.Topic, t.TopicID), p.Partition, p.ErrorCode, p.BaseOffset)
			}
		}
		return b.String()
	case *kmsg.FetchRequest:
		var b strings.Builder
		fmt.Fprintf(&b, "Fetch v%d iso=%d sess=%d/%d max=%d", r.Version, r.IsolationLevel, r.SessionID, r.SessionEpoch, r.MaxBytes)
		for _, t := range r.Topics {
			for _, p := range t.Partitions {
				fmt.Fprintf(&b, " %s/%d@%d(e%d)", s.reqTopic(t.Topic, t.TopicID), p.Partition, p.FetchOffset, p.CurrentLeaderEpoch)
			}
		}
		for _, t := range r.ForgottenTopics {
			fmt.Fprintf(&b, " forget %s%v", s.reqTopic(t.Topic, t.TopicID), t.Partitions)
		}
		return b.String()
	case *kmsg.FetchResponse:
		var b strings.Builder
		fmt.Fprintf(&b, "FetchResp err=%d sess=%d", r.ErrorCode, r.SessionID)
		for _, t := range r.Topics {
			for _, p := range t.Partitions {
				bs, _ := RefDecodeBatches(p.RecordBatches)
				var first []int64
				for _, x := range bs {
					first = append(first, x.BaseOffset)
				}
				var ab []string
				for _, a := range p.AbortedTransactions {
					ab = append(ab, fmt.Sprintf("%d@%d", a.ProducerID%1000, a.FirstOffset))
				}
				fmt.Fprintf(&b, " %s/%d{err=%d hwm=%d lso=%d start=%d batches=%v aborted=%v}", s.reqTopic(t.Topic, t.TopicID), p.Partition, p.ErrorCode, p.HighWatermark, p.LastStableOffset, p.LogStartOffset, first, ab)
			}
		}
		return b.String()
	case *kmsg.MetadataResponse:
		var b strings.Builder
		b.WriteString("MetadataResp")
		for _, t := range r.Topics {
			name := ""
			if t.Topic != nil {
				name = *t.Topic
			}
			fmt.Fprintf(&b, " %s(err=%d)", name, t.ErrorCode)
			for _, p := range t.Partitions {
				fmt.Fprintf(&b, " %d:l%d/e%d", p.Partition, p.Leader, p.LeaderEpoch)
			}
		}
		return b.String()
	}
	x := fmt.Sprintf("%T%+v", m, m)
	if len(x) > 700 {
		x = x[:700] + "..."
	}
	return x
}
