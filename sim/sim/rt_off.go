//go:build !verifrt

package sim

func rtSeed(seed uint64, sched, yield uint32) {}
func rtSpinReset()                            {}
func rtSpinBreaks() uint64                    { return 0 }
func rtTrace() (uint64, uint64)               { return 0, 0 }

func rtNonBubble() (uint64, string) { return 0, "" }

func rtDraws() (uint64, uint64) { return 0, 0 }

func rtEvLogOn()        {}
func rtEvLog() []uint64 { return nil }

const rtEnabled = false

func rtYield(site uint32) {}

func rtSpinBreaksNow() uint64 { return 0 }
