package sim

import (
	"fmt"
	"sort"
	"strings"

	"github.com/twmb/franz-go/pkg/kfake"
	"github.com/twmb/franz-go/pkg/kmsg"

	"verifsim/plan"
)

func init() { Scenarios["crash"] = scenCrash }

// Scenario crash (C33). kfake runs with DataDir, SyncWrites and the
// crash-simulating file system (crashfs.go). A generated workload - topic
// creation, plain/idempotent/transactional produce, offset commits, clean
// restarts in between ("generations"), segment rolls and state-log
// compactions forced by small limits, a clean Close at the end - is issued one
// request at a time by the simulator's raw client; for every acknowledged
// request the file-system sequence number at the time of the acknowledgement
// is recorded. Then, for the crash points of this run (every operation index
// congruent to crash_phase modulo crash_stride; the check's plan list covers
// all phases), disk images are built under each loss policy (nothing lost,
// every file back to its last sync, a random part of each file's unsynced
// tail with a torn last write, and the crash in the middle of the write at
// the crash point), a fresh cluster is started on each image and inspected
// through the protocol.
type crAck struct {
	kind  string // produce, commit, create
	fsSeq int
	topic string
	part  int32
	base  int64
	vals  []string
	group string
	off   int64
}

type crState struct {
	s      *Sim
	fs     *CrashFS
	c      *kfake.Cluster
	cli    *RawCli
	acks   []crAck
	topics map[string]int32 // topic -> partitions
	nval   int
	issued map[string]int64          // value -> offset it was acknowledged at (or -1 when only sent)
	sentTo map[string]string         // value -> topic/partition
	commit map[string]map[int64]bool // group/topic/part -> offsets ever sent
	next   map[string]int64          // topic/part -> expected next base offset
	pid    int64
	epoch  int16
	seqs   map[string]int32
}

func (cs *crState) clusterOpts(f *CrashFS, seed bool) []kfake.Opt {
	p := cs.s.P
	cfgs := map[string]string{
		"log.segment.bytes":       fmt.Sprint(p.Knob("segment_bytes", 600)),
		"state.log.compact.bytes": fmt.Sprint(p.Knob("compact_bytes", 900)),
	}
	opts := []kfake.Opt{kfake.NumBrokers(1), kfake.Ports(basePort), kfake.ListenFn(cs.s.Net.Listen), kfake.WithLogger(&kfakeLogger{cs.s}),
		kfake.DataDir("/data"), kfake.SyncWrites(), kfake.VerifWithFS(f), kfake.BrokerConfigs(cfgs)}
	if seed {
		opts = append(opts, kfake.SeedTopics(int32(p.Knob("nparts", 2)), "t0"))
	}
	return opts
}

func (cs *crState) start(f *CrashFS, seed bool) error {
	c, err := kfake.NewCluster(cs.clusterOpts(f, seed)...)
	if err != nil {
		return err
	}
	cs.c = c
	cs.s.Cluster = c
	cs.cli = cs.s.Raw("raw0")
	return nil
}

func (cs *crState) stop() {
	if cs.cli != nil {
		cs.cli.Close()
		cs.cli = nil
	}
	if cs.c != nil {
		cs.c.Close()
		cs.c = nil
		cs.s.Cluster = nil
	}
}

func (cs *crState) produce(topic string, part int32, n int, idem bool) {
	var vals []string
	for i := 0; i < n; i++ {
		cs.nval++
		v := fmt.Sprintf("c%d|%s", cs.nval, strings.Repeat("x", int(cs.s.P.Knob("value_pad", 40))))
		vals = append(vals, v)
		cs.issued[v] = -1
		cs.sentTo[v] = fmt.Sprintf("%s/%d", topic, part)
	}
	pid, epoch, seq := int64(-1), int16(-1), int32(-1)
	tp := fmt.Sprintf("%s/%d", topic, part)
	if idem && cs.pid >= 0 {
		pid, epoch, seq = cs.pid, cs.epoch, cs.seqs[tp]
	}
	r := kmsg.NewPtrProduceRequest()
	r.Acks, r.TimeoutMillis = -1, 1000
	t := kmsg.NewProduceRequestTopic()
	t.Topic = topic
	rp := kmsg.NewProduceRequestTopicPartition()
	rp.Partition = part
	rp.Records = klEncodeBatch(pid, epoch, seq, false, vals, 1000000+int64(cs.nval))
	t.Partitions = append(t.Partitions, rp)
	r.Topics = append(r.Topics, t)
	r.SetVersion(11)
	resp, err := cs.cli.roundTripV(0, r)
	if err != nil {
		cs.s.Logf("crash: produce failed: %v", err)
		return
	}
	pr := resp.(*kmsg.ProduceResponse)
	if len(pr.Topics) != 1 || len(pr.Topics[0].Partitions) != 1 || pr.Topics[0].Partitions[0].ErrorCode != 0 {
		cs.s.Count("workload.produce_error", 1)
		return
	}
	base := pr.Topics[0].Partitions[0].BaseOffset
	cs.acks = append(cs.acks, crAck{kind: "produce", fsSeq: cs.fs.Seq(), topic: topic, part: part, base: base, vals: vals})
	for i, v := range vals {
		cs.issued[v] = base + int64(i)
	}
	if idem && cs.pid >= 0 {
		cs.seqs[tp] = seqAdd(seq, int32(n))
	}
	cs.s.Count("workload.produce_acked", 1)
}

func (cs *crState) step(op plan.Op) {
	s := cs.s
	switch op.Kind {
	case "produce":
		topic := "t0"
		if op.S != "" {
			if _, ok := cs.topics[op.S]; ok {
				topic = op.S
			}
		}
		cs.produce(topic, int32(op.B)%cs.topics[topic], int(op.C), op.D != 0)
	case "init":
		r := kmsg.NewPtrInitProducerIDRequest()
		r.ProducerID, r.ProducerEpoch = -1, -1
		r.SetVersion(4)
		if resp, err := cs.cli.roundTripV(0, r); err == nil {
			if ir := resp.(*kmsg.InitProducerIDResponse); ir.ErrorCode == 0 {
				cs.pid, cs.epoch, cs.seqs = ir.ProducerID, ir.ProducerEpoch, map[string]int32{}
			}
		}
	case "commit":
		g := fmt.Sprintf("g%d", op.A)
		part := int32(op.B) % cs.topics["t0"]
		k := fmt.Sprintf("%s/t0/%d", g, part)
		if cs.commit[k] == nil {
			cs.commit[k] = map[int64]bool{}
		}
		off := int64(len(cs.commit[k]) + 1)
		cs.commit[k][off] = true
		r := kmsg.NewPtrOffsetCommitRequest()
		r.Group, r.Generation = g, -1
		t := kmsg.NewOffsetCommitRequestTopic()
		t.Topic = "t0"
		rp := kmsg.NewOffsetCommitRequestTopicPartition()
		rp.Partition, rp.Offset, rp.LeaderEpoch = part, off, -1
		t.Partitions = append(t.Partitions, rp)
		r.Topics = append(r.Topics, t)
		r.SetVersion(7)
		resp, err := cs.cli.roundTripV(0, r)
		if err != nil {
			return
		}
		cr := resp.(*kmsg.OffsetCommitResponse)
		if len(cr.Topics) == 1 && len(cr.Topics[0].Partitions) == 1 && cr.Topics[0].Partitions[0].ErrorCode == 0 {
			cs.acks = append(cs.acks, crAck{kind: "commit", fsSeq: cs.fs.Seq(), group: g, topic: "t0", part: part, off: off})
			s.Count("workload.commit_acked", 1)
		} else {
			s.Count("workload.commit_error", 1)
		}
	case "create":
		name := fmt.Sprintf("n%d", op.A)
		if _, ok := cs.topics[name]; ok {
			return
		}
		r := kmsg.NewPtrCreateTopicsRequest()
		r.TimeoutMillis = 1000
		t := kmsg.NewCreateTopicsRequestTopic()
		t.Topic, t.NumPartitions, t.ReplicationFactor = name, 1, 1
		r.Topics = append(r.Topics, t)
		r.SetVersion(5)
		resp, err := cs.cli.roundTripV(0, r)
		if err != nil {
			return
		}
		if cr := resp.(*kmsg.CreateTopicsResponse); len(cr.Topics) == 1 && cr.Topics[0].ErrorCode == 0 {
			cs.topics[name] = 1
			cs.acks = append(cs.acks, crAck{kind: "create", fsSeq: cs.fs.Seq(), topic: name})
			s.Count("workload.create_acked", 1)
		}
	case "restart":
		// a clean Close and a new generation on the same (live) file system
		cs.stop()
		if err := cs.start(cs.fs, true); err != nil {
			s.Violf("C33/restart/clean-close", "restart after a clean Close failed: %v", err)
			return
		}
		s.Count("workload.clean_restarts", 1)
	}
}

// inspect checks a recovered cluster against what was acknowledged before
// file-system operation upto.
func (cs *crState) inspect(what string, upto int, clean bool) {
	s := cs.s
	cli := s.Raw("insp")
	defer cli.Close()
	need := map[string]map[int64]string{} // tp -> offset -> value that must be there
	// a topic must be there if anything acknowledged before the stop names it
	// (a seed topic of a first start that crashed before anything was
	// acknowledged need not be)
	topicsNeeded := map[string]bool{}
	lastCommit := map[string]int64{}
	for _, a := range cs.acks {
		if a.fsSeq > upto {
			continue
		}
		topicsNeeded[a.topic] = true
		switch a.kind {
		case "produce":
			tp := fmt.Sprintf("%s/%d", a.topic, a.part)
			if need[tp] == nil {
				need[tp] = map[int64]string{}
			}
			for i, v := range a.vals {
				need[tp][a.base+int64(i)] = v
			}
		case "create":
			topicsNeeded[a.topic] = true
		case "commit":
			k := fmt.Sprintf("%s/%s/%d", a.group, a.topic, a.part)
			if a.off > lastCommit[k] {
				lastCommit[k] = a.off
			}
		}
	}
	var tnames []string
	for t := range topicsNeeded {
		tnames = append(tnames, t)
	}
	sort.Strings(tnames)
	for _, t := range tnames {
		np := cs.topics[t]
		leaders, err := cli.Leaders(t)
		if err != nil || int32(len(leaders)) < np {
			s.Violf("C33/recovered/topic-missing", "%s: topic %s (created and acknowledged before the stop) is not there after restart: %v, %d partitions", what, t, err, len(leaders))
			continue
		}
		for q := int32(0); q < np; q++ {
			tp := fmt.Sprintf("%s/%d", t, q)
			l, err := cli.readLogOnce(t, q)
			if err != nil {
				s.Violf("C33/recovered/log-unreadable", "%s: %s cannot be read after restart: %v", what, tp, err)
				continue
			}
			prev := int64(-1)
			have := map[int64]string{}
			for _, b := range l.Batches {
				if !b.CRCOk {
					s.Violf("C33/recovered/partial-batch", "%s: %s holds a batch at %d with a bad CRC", what, tp, b.BaseOffset)
				}
				if int(b.NumRecords) != len(b.Records) && !b.Control() {
					s.Violf("C33/recovered/partial-batch", "%s: %s batch at %d announces %d records, holds %d", what, tp, b.BaseOffset, b.NumRecords, len(b.Records))
				}
				if prev >= 0 && b.BaseOffset != prev+1 {
					s.Violf("C33/recovered/offsets-not-contiguous", "%s: %s batch at %d follows a batch ending at %d", what, tp, b.BaseOffset, prev)
				}
				prev = b.LastOffset()
				for _, r := range b.Records {
					have[r.Offset] = string(r.Value)
				}
			}
			if len(l.Batches) > 0 && l.Batches[0].BaseOffset != l.LogStart {
				s.Violf("C33/recovered/offsets-not-contiguous", "%s: %s first batch at %d, log start %d", what, tp, l.Batches[0].BaseOffset, l.LogStart)
			}
			if prev >= 0 && l.HWM != prev+1 {
				s.Violf("C33/recovered/high-watermark", "%s: %s high watermark %d, last batch ends at %d", what, tp, l.HWM, prev)
			}
			var offs []int64
			for o := range need[tp] {
				offs = append(offs, o)
			}
			sort.Slice(offs, func(i, j int) bool { return offs[i] < offs[j] })
			for _, o := range offs {
				if have[o] != need[tp][o] {
					s.Violf("C33/recovered/acked-produce-lost", "%s: %s offset %d was acknowledged before the stop (value %.12q) but after restart holds %.12q (log [%d,%d))", what, tp, o, need[tp][o], have[o], l.LogStart, l.HWM)
					break
				}
			}
			for o, v := range have {
				if at, ok := cs.issued[v]; !ok || cs.sentTo[v] != tp || (at >= 0 && at != o) {
					s.Violf("C33/recovered/foreign-record", "%s: %s offset %d holds %.12q, which the workload never produced there (sent to %s, acknowledged at %d)", what, tp, o, v, cs.sentTo[v], at)
					break
				}
			}
			s.Count("inspected_partitions", 1)
		}
	}
	var ks []string
	for k := range cs.commit {
		ks = append(ks, k)
	}
	sort.Strings(ks)
	for _, k := range ks {
		parts := strings.Split(k, "/")
		var q int32
		fmt.Sscanf(parts[2], "%d", &q)
		r := kmsg.NewPtrOffsetFetchRequest()
		r.Group = parts[0]
		t := kmsg.NewOffsetFetchRequestTopic()
		t.Topic, t.Partitions = parts[1], []int32{q}
		r.Topics = append(r.Topics, t)
		r.SetVersion(5)
		resp, err := cli.roundTripV(0, r)
		if err != nil {
			continue
		}
		fr := resp.(*kmsg.OffsetFetchResponse)
		got := int64(-1)
		if len(fr.Topics) == 1 && len(fr.Topics[0].Partitions) == 1 && fr.Topics[0].Partitions[0].ErrorCode == 0 {
			got = fr.Topics[0].Partitions[0].Offset
		}
		if want, acked := lastCommit[k]; acked && got < want {
			s.Violf("C33/recovered/acked-commit-lost", "%s: committed offset of %s is %d after restart, offset %d was acknowledged before the stop", what, k, got, lastCommit[k])
		}
		if got >= 0 && !cs.commit[k][got] {
			s.Violf("C33/recovered/foreign-commit", "%s: committed offset of %s is %d after restart, which was never committed", what, k, got)
		}
		if clean && lastCommit[k] > 0 && got != lastCommit[k] {
			s.Violf("C33/clean-restart/commit-differs", "%s: committed offset of %s is %d, before the clean Close it was %d", what, k, got, lastCommit[k])
		}
	}
	s.Count("images_inspected", 1)
}

// probeAfterRecovery produces to every partition of the recovered cluster,
// reads the logs back, restarts cleanly on the same files and reads again.
func (cs *crState) probeAfterRecovery(what string, img *CrashFS) {
	s := cs.s
	type want struct {
		t    string
		q    int32
		base int64
		vals []string
	}
	var ws []want
	var tnames []string
	for t := range cs.topics {
		tnames = append(tnames, t)
	}
	sort.Strings(tnames)
	check := func(stage string) bool {
		cli := s.Raw("probe")
		defer cli.Close()
		for _, w := range ws {
			tp := fmt.Sprintf("%s/%d", w.t, w.q)
			l, err := cli.ReadLog(w.t, w.q)
			if err != nil {
				s.Violf("C33/after-recovery/log-unreadable", "%s; %s: %s cannot be read: %v", what, stage, tp, err)
				return false
			}
			if l.HWM != w.base+int64(len(w.vals)) {
				s.Violf("C33/after-recovery/high-watermark", "%s; %s: %s high watermark %d, expected %d (records produced after recovery at %d)", what, stage, tp, l.HWM, w.base+int64(len(w.vals)), w.base)
				return false
			}
			have := map[int64]string{}
			prev := int64(-1)
			for _, b := range l.Batches {
				if !b.CRCOk || (prev >= 0 && b.BaseOffset != prev+1) {
					s.Violf("C33/after-recovery/corrupt", "%s; %s: %s batch at %d (previous batch ended at %d, CRC ok=%v)", what, stage, tp, b.BaseOffset, prev, b.CRCOk)
					return false
				}
				prev = b.LastOffset()
			}
			for _, r := range l.Records {
				have[r.Offset] = string(r.Value)
			}
			for i, v := range w.vals {
				if have[w.base+int64(i)] != v {
					s.Violf("C33/after-recovery/record-lost", "%s; %s: %s offset %d holds %.12q, the record produced and acknowledged there after recovery was %.12q", what, stage, tp, w.base+int64(i), have[w.base+int64(i)], v)
					return false
				}
			}
		}
		return true
	}
	cli := s.Raw("probe")
	for _, t := range tnames {
		leaders, err := cli.Leaders(t)
		if err != nil {
			continue // the topic did not survive (judged by inspect)
		}
		for q := int32(0); q < int32(len(leaders)); q++ {
			before, err := cli.ReadLog(t, q)
			if err != nil {
				continue
			}
			cs.nval++
			vals := []string{fmt.Sprintf("probe%d-a", cs.nval), fmt.Sprintf("probe%d-b", cs.nval)}
			r := kmsg.NewPtrProduceRequest()
			r.Acks, r.TimeoutMillis = -1, 1000
			rt := kmsg.NewProduceRequestTopic()
			rt.Topic = t
			rp := kmsg.NewProduceRequestTopicPartition()
			rp.Partition = q
			rp.Records = klEncodeBatch(-1, -1, -1, false, vals, 2000000+int64(cs.nval))
			rt.Partitions = append(rt.Partitions, rp)
			r.Topics = append(r.Topics, rt)
			r.SetVersion(11)
			resp, err := cli.roundTripV(0, r)
			if err != nil {
				continue
			}
			pr := resp.(*kmsg.ProduceResponse)
			if len(pr.Topics) != 1 || len(pr.Topics[0].Partitions) != 1 || pr.Topics[0].Partitions[0].ErrorCode != 0 {
				continue
			}
			base := pr.Topics[0].Partitions[0].BaseOffset
			if base != before.HWM {
				s.Violf("C33/after-recovery/base-offset", "%s: a produce to %s/%d after recovery was acknowledged at offset %d, the recovered log ended at %d", what, t, q, base, before.HWM)
			}
			ws = append(ws, want{t, q, base, vals})
		}
	}
	cli.Close()
	if len(ws) == 0 {
		return
	}
	s.Count("post_recovery_probes", 1)
	if !check("read back") {
		return
	}
	cs.stop()
	if err := cs.start(img, true); err != nil {
		s.Violf("C33/after-recovery/restart-failed", "%s: clean restart after producing to the recovered cluster failed: %v", what, err)
		return
	}
	check("after a further clean restart")
}

func scenCrash(s *Sim) {
	p := s.P
	cs := &crState{s: s, fs: NewCrashFS(), topics: map[string]int32{"t0": int32(p.Knob("nparts", 2))}, issued: map[string]int64{}, sentTo: map[string]string{},
		commit: map[string]map[int64]bool{}, next: map[string]int64{}, pid: -1, seqs: map[string]int32{}}
	s.StartDriver()
	if err := cs.start(cs.fs, true); err != nil {
		s.Violf("C33/start", "first start failed: %v", err)
		return
	}
	for _, a := range p.Actors {
		for _, op := range a.Ops {
			cs.step(op)
		}
	}
	cs.stop() // clean Close
	ops := cs.fs.Ops()
	nops := len(ops)
	s.Count("fs_ops", int64(nops))
	s.Max("fs_ops_max", int64(nops))
	kinds := map[string]int64{}
	for _, o := range ops {
		kinds[o.kind]++
	}
	for k, n := range kinds {
		s.Count("fs_op."+k, n)
	}
	// a clean Close followed by a restart recovers everything acknowledged
	{
		img := CrashImage(ops, nops, LossNone, -1, s.Pick)
		if err := cs.start(img, true); err != nil {
			s.Violf("C33/clean-restart/failed", "restart after the final clean Close failed: %v", err)
		} else {
			cs.inspect("clean Close + restart", nops, true)
			cs.stop()
		}
	}
	stride, phase := int(p.Knob("crash_stride", 1)), int(p.Knob("crash_phase", 0))
	if stride < 1 {
		stride = 1
	}
	for i := phase; i <= nops; i += stride {
		type variant struct {
			policy, torn int
			name         string
		}
		vs := []variant{{LossNone, -1, "nothing lost"}, {LossAll, -1, "unsynced data lost"}, {LossPartial, -1, "part of the unsynced data lost"}}
		if i < nops && ops[i].kind == "write" && len(ops[i].data) > 1 {
			vs = append(vs, variant{LossAll, 1 + s.Pick(len(ops[i].data)-1), "torn write, unsynced data lost"}, variant{LossNone, 1 + s.Pick(len(ops[i].data)-1), "torn write"})
		}
		for _, v := range vs {
			img := CrashImage(ops, i, v.policy, v.torn, s.Pick)
			what := fmt.Sprintf("crash after file-system operation %d of %d (%s)", i, nops, v.name)
			if i < nops {
				what += fmt.Sprintf(", next operation %s %s", ops[i].kind, ops[i].name)
			}
			if err := cs.start(img, true); err != nil {
				s.Violf("C33/restart/failed", "%s: restart failed: %v", what, err)
				continue
			}
			cs.inspect(what, i, false)
			if v.torn >= 0 || s.Pick(8) == 0 {
				// the recovered cluster must also be usable: what is produced
				// to it lands where the log ends and is still there after a
				// further (clean) restart
				cs.probeAfterRecovery(what, img)
			}
			cs.stop()
			s.Count("crash_images."+strings.ReplaceAll(v.name, " ", "_"), 1)
			if len(s.viol) > 5 {
				return
			}
		}
	}
	s.Count("nontrivial", 1)
}
