package sim

import (
	"encoding/json"
	"fmt"
	"os"
	"runtime/pprof"
	"strconv"
	"syscall"
	"testing"

	"verifsim/plan"
)

// TestSim runs exactly one plan (VERIF_PLAN) and writes the result to
// VERIF_OUT after the bubble has ended. One run per OS process.
func TestSim(t *testing.T) {
	// The number of OS threads the runtime created during start-up varies
	// with machine load (a thread going idle races with a hand-off that needs
	// one). Each thread's stacks come from the Go heap, so a different count
	// shifts every later heap address and, through pointer-keyed maps, the
	// execution. The parent calibrates the usual count; a child that started
	// differently re-executes itself.
	nthreads := pprof.Lookup("threadcreate").Count()
	if os.Getenv("VERIF_PROBE_THREADS") != "" {
		fmt.Printf("threads=%d\n", nthreads)
		return
	}
	if exp, _ := strconv.Atoi(os.Getenv("VERIF_THREADS")); exp > 0 && nthreads != exp {
		// VERIF_REEXEC is always present and always two characters wide: a
		// re-executed child must start from exactly the same environment
		// block (number and length of variables) as a first-time child, or
		// its start-up allocations, and with them its heap layout, differ.
		if n, _ := strconv.Atoi(os.Getenv("VERIF_REEXEC")); n < 10 {
			os.Setenv("VERIF_REEXEC", fmt.Sprintf("%02d", n+1))
			if exe, err := os.Executable(); err == nil {
				syscall.Exec(exe, os.Args, os.Environ())
			}
		}
	}
	pf := os.Getenv("VERIF_PLAN")
	if pf == "" {
		t.Skip("VERIF_PLAN not set")
	}
	p, err := plan.Load(pf)
	if err != nil {
		t.Fatal(err)
	}
	scen := Scenarios[p.Scenario]
	var res *plan.Result
	if scen == nil {
		res = &plan.Result{Prop: p.Prop, Seed: p.Seed, Infra: "unknown scenario " + p.Scenario, Stats: map[string]int64{}}
	} else {
		res = Run(t, p, scen)
	}
	b, _ := json.Marshal(res)
	if out := os.Getenv("VERIF_OUT"); out != "" {
		if err := os.WriteFile(out, b, 0o644); err != nil {
			t.Fatal(err)
		}
	} else {
		os.Stdout.Write(append(b, '\n'))
	}
}
