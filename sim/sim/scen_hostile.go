package sim

import (
	"context"
	"encoding/binary"
	"fmt"
	"sort"
	"sync"
	"time"

	"github.com/twmb/franz-go/pkg/kfake"
	"github.com/twmb/franz-go/pkg/kgo"
	"github.com/twmb/franz-go/pkg/kmsg"

	"verifsim/plan"
)

func init() { Scenarios["hostile"] = scenHostile }

// Scenario hostile (C22): application goroutines issue concurrent requests
// (Client.Request, which retries, and Broker.Request, which does not), each
// naming an item of its own so that a response can be attributed ("echo"),
// some with deadlines, some cancelled from another goroutine; the real broker
// answers, and the simulated network mutates the response stream from the
// plan's script (fault kind "corrupt", Arg = mutation):
//
//	 1 intact frame with another correlation id          (untainted)
//	 2 extra well-formed frame with an unknown id first   (untainted)
//	 3 this frame is held and delivered after the next    (untainted)
//	 4 response silently dropped (connection stays open)  (untainted)
//	 5 connection closed instead of the response          (untainted)
//	 6 truncated body, declared length kept (reader starves)
//	 7 declared length shorter than the body (remainder parsed as next frame)
//	 8 negative length     9 huge length    10 "HTTP/1.1 400"   11 TLS alert
//	12 random byte flips in the body
//	13 garbage frame of random bytes with a plausible length
//	14 the frame is cut and the connection closed mid-frame
//
// Mutations 6-14 change bytes inside a frame or the framing: Kafka responses
// carry no checksum, so what such a stream decodes to is arbitrary and the
// echo oracle is off for that (client, broker) from then on; exactly-once
// return, no panic and the time bound hold regardless.
type hostileCall struct {
	id        int
	actor     string
	client    string
	kind      int64
	broker    int64 // -1: Client.Request
	marker    string
	invoke    time.Duration
	ret       time.Duration
	done      bool
	resp      kmsg.Response
	err       error
	cancelAt  time.Duration // when its context was cancelled or expired (0: never)
	deadline  time.Duration
	returns   int
	taintedAt map[string]time.Duration
}

type hostileState struct {
	s       *Sim
	mu      sync.Mutex
	calls   []*hostileCall
	cancels []func()
	taint   map[string]time.Duration // client|broker -> first tainting mutation
	held    map[*Conn][]byte
	// throttles the client was told to honour, per client|broker: kgo
	// honours a throttle in full, with no cap (documented: KIP-219, "an
	// absurd throttle is equivalent to a slow broker"), so time spent
	// throttled is not time "beyond the configured time-outs"
	throttle map[string][]throttleWin
}

// throttleWin: a throttle belongs to the connection it arrived on. When that
// connection is reset while the client has a read outstanding on it, the
// client knows it is gone and has nothing left to wait for.
type throttleWin struct {
	from, to time.Duration
	conn     *Conn
}

func (hs *hostileState) noteThrottle(c *Conn, key, ver int16, frame []byte) {
	resp := decodeResp(key, ver, frame)
	if resp == nil {
		return
	}
	tr, ok := resp.(kmsg.ThrottleResponse)
	if !ok {
		return
	}
	if ms, _ := tr.Throttle(); ms > 0 {
		k := fmt.Sprintf("%s|%d", c.Client, c.Broker)
		now := hs.s.Now()
		hs.mu.Lock()
		hs.throttle[k] = append(hs.throttle[k], throttleWin{now, now + time.Duration(ms)*time.Millisecond, c})
		hs.mu.Unlock()
		hs.s.Count("throttles_seen", 1)
	}
}

// throttled returns how long client was throttled by broker (any broker if
// broker < 0) inside [from, to].
func (hs *hostileState) throttled(client string, broker int64, from, to time.Duration) time.Duration {
	var sum time.Duration
	for k, ws := range hs.throttle {
		if broker >= 0 && k != fmt.Sprintf("%s|%d", client, broker) {
			continue
		}
		if broker < 0 && !(len(k) > len(client) && k[:len(client)+1] == client+"|") {
			continue
		}
		for _, w := range ws {
			a, b := w.from, w.to
			if at := w.conn.resetAt.Load(); at != 0 {
				// (plus two seconds for the client to notice and reissue)
				if end := time.Unix(0, at).Sub(hs.s.start) + 2*time.Second; end < b {
					b = end
				}
			}
			if a < from {
				a = from
			}
			if b > to {
				b = to
			}
			if b > a {
				sum += b - a
			}
		}
	}
	return sum
}

// creditBroker: which broker's throttles count for a call. Normally the
// call's own; in the plans with minute-long throttles any broker's, because a
// call to one broker can wait for a metadata request that sleeps out another
// broker's throttle.
func (hs *hostileState) creditBroker(b int64) int64 {
	if hs.s.P.Knob("long_throttle", 0) != 0 {
		return -1
	}
	return b
}

func hostileReq(kind int64, marker string) kmsg.Request {
	switch kind {
	case 0:
		r := kmsg.NewPtrMetadataRequest()
		t := kmsg.NewMetadataRequestTopic()
		t.Topic = kmsg.StringPtr(marker)
		r.Topics = append(r.Topics, t)
		return r
	case 1:
		r := kmsg.NewPtrDescribeGroupsRequest()
		r.Groups = []string{marker}
		return r
	case 2:
		r := kmsg.NewPtrFindCoordinatorRequest()
		r.CoordinatorKey = marker
		r.CoordinatorKeys = []string{marker}
		return r
	default:
		r := kmsg.NewPtrOffsetFetchRequest()
		r.Group = marker
		g := kmsg.NewOffsetFetchRequestGroup()
		g.Group = marker
		r.Groups = append(r.Groups, g)
		return r
	}
}

// hostileEcho extracts the item a response names ("" if it names none).
func hostileEcho(resp kmsg.Response) (string, bool) {
	switch r := resp.(type) {
	case *kmsg.MetadataResponse:
		if len(r.Topics) == 1 && r.Topics[0].Topic != nil {
			return *r.Topics[0].Topic, true
		}
	case *kmsg.DescribeGroupsResponse:
		if len(r.Groups) == 1 {
			return r.Groups[0].Group, true
		}
	case *kmsg.FindCoordinatorResponse:
		if len(r.Coordinators) == 1 {
			return r.Coordinators[0].Key, true
		}
		return "", false // old version: nothing echoed
	case *kmsg.OffsetFetchResponse:
		if len(r.Groups) == 1 {
			return r.Groups[0].Group, true
		}
		return "", false
	}
	return "", false
}

func (hs *hostileState) mutate(c *Conn, ri *reqInfo, data []byte) ([][]byte, bool) {
	s := hs.s
	// a frame held by mutation 3 goes out right after the next response
	if h, ok := hs.held[c]; ok {
		delete(hs.held, c)
		return [][]byte{data, h}, false
	}
	r := s.matchRules(c, ri.key, "corrupt")
	if r == nil {
		return nil, false
	}
	m := r.Arg
	s.Count(fmt.Sprintf("fault.corrupt_%02d", m), 1)
	s.Logf("FAULT corrupt kind=%d %s key=%d corr=%d len=%d", m, c.Name, ri.key, ri.corr, len(data))
	tainted := func() {
		c.tainted = true
		k := fmt.Sprintf("%s|%d", c.Client, c.Broker)
		hs.mu.Lock()
		if _, ok := hs.taint[k]; !ok {
			hs.taint[k] = s.Now()
		}
		hs.mu.Unlock()
	}
	cp := append([]byte(nil), data...)
	x := mix64(s.P.Seed ^ uint64(ri.corr)*0x9e3779b97f4a7c15 ^ uint64(len(data)))
	switch m {
	case 1:
		binary.BigEndian.PutUint32(cp[4:8], uint32(ri.corr+1+int32(x%5)))
		return [][]byte{cp}, false
	case 2:
		extra := []byte{0, 0, 0, 8, 0x7f, 0xff, 0xff, byte(x), 0, 0, 0, 0}
		return [][]byte{extra, data}, false
	case 3:
		hs.held[c] = cp
		return [][]byte{}, false
	case 4:
		return [][]byte{}, false
	case 5:
		return nil, true
	case 6:
		tainted()
		k := 8 + int(x%uint64(max(len(cp)-8, 1)))
		if k >= len(cp) {
			k = len(cp) - 1
		}
		return [][]byte{cp[:k]}, false
	case 7:
		tainted()
		short := uint32(4 + x%uint64(max(len(cp)-8, 1)))
		binary.BigEndian.PutUint32(cp[:4], short)
		return [][]byte{cp}, false
	case 8:
		tainted()
		binary.BigEndian.PutUint32(cp[:4], 0xffffff00|uint32(x&0xff))
		return [][]byte{cp}, false
	case 9:
		tainted()
		binary.BigEndian.PutUint32(cp[:4], 0x7fffff00)
		return [][]byte{cp}, false
	case 10:
		tainted()
		return [][]byte{[]byte("HTTP/1.1 400 Bad Request\r\nConnection: close\r\n\r\n")}, false
	case 11:
		tainted()
		return [][]byte{{0x15, 0x03, 0x03, 0x00, 0x02, 0x02, 0x46}}, false
	case 12:
		tainted()
		for i := 0; i < 1+int(x%4); i++ {
			if len(cp) > 8 {
				p := 8 + int(mix64(x+uint64(i))%uint64(len(cp)-8))
				cp[p] ^= byte(1 << (mix64(x^uint64(i)) % 8))
			}
		}
		return [][]byte{cp}, false
	case 13:
		tainted()
		n := 4 + int(x%200)
		g := make([]byte, 4+n)
		binary.BigEndian.PutUint32(g[:4], uint32(n))
		binary.BigEndian.PutUint32(g[4:8], uint32(ri.corr))
		for i := 8; i < len(g); i++ {
			g[i] = byte(mix64(x + uint64(i)))
		}
		return [][]byte{g}, false
	case 14:
		tainted()
		k := 1 + int(x%uint64(max(len(cp)-1, 1)))
		return [][]byte{cp[:k]}, true
	}
	return nil, false
}

func (hs *hostileState) call(cl *kgo.Client, actor, client string, idx int, op plan.Op, wg *sync.WaitGroup) {
	s := hs.s
	c := &hostileCall{actor: actor, client: client, kind: op.A, broker: op.B, marker: fmt.Sprintf("%s-%s-%d", client, actor, idx)}
	ctx, cancel := context.Background(), func() {}
	switch {
	case op.D > 0:
		ctx, cancel = context.WithTimeout(ctx, time.Duration(op.D)*time.Millisecond)
		c.deadline = time.Duration(op.D) * time.Millisecond
	case op.D == -1:
		var cf context.CancelFunc
		ctx, cf = context.WithCancel(ctx)
		hs.mu.Lock()
		hs.cancels = append(hs.cancels, func() {
			hs.mu.Lock()
			if c.cancelAt == 0 {
				c.cancelAt = s.Now()
			}
			hs.mu.Unlock()
			cf()
		})
		hs.mu.Unlock()
	}
	hs.mu.Lock()
	c.id = len(hs.calls)
	hs.calls = append(hs.calls, c)
	hs.mu.Unlock()
	run := func() {
		defer cancel()
		req := hostileReq(op.A, c.marker)
		c.invoke = s.Now()
		var resp kmsg.Response
		var err error
		if op.B >= 0 {
			resp, err = cl.Broker(int(op.B)).Request(ctx, req)
		} else {
			resp, err = cl.Request(ctx, req)
		}
		hs.mu.Lock()
		c.ret = s.Now()
		c.done = true
		c.returns++
		c.resp, c.err = resp, err
		hs.mu.Unlock()
	}
	if op.C != 0 {
		// fire and continue: several requests of one goroutine in flight
		wg.Add(1)
		go func() { defer wg.Done(); run() }()
		return
	}
	run()
}

func scenHostile(s *Sim) {
	p := s.P
	nb := int(p.Knob("nbroker", 2))
	s.StartCluster(nb, kfake.SeedTopics(2, "t0"))
	hs := &hostileState{s: s, taint: map[string]time.Duration{}, held: map[*Conn][]byte{}, throttle: map[string][]throttleWin{}}
	s.Mutate = func(c *Conn, ri *reqInfo, data []byte) ([][]byte, bool) {
		out, kill := hs.mutate(c, ri, data)
		for _, f := range out {
			// what the client will decode from a frame that still carries
			// this request's correlation id
			if len(f) >= 8 && int32(binary.BigEndian.Uint32(f[4:8])) == ri.corr {
				hs.noteThrottle(c, ri.key, ri.ver, f)
			}
		}
		return out, kill
	}
	s.OnResp = append(s.OnResp, func(r *WireResp) {
		if tr, ok := r.Resp.(kmsg.ThrottleResponse); ok {
			if ms, _ := tr.Throttle(); ms > 0 {
				k := fmt.Sprintf("%s|%d", r.Conn.Client, r.Conn.Broker)
				hs.mu.Lock()
				hs.throttle[k] = append(hs.throttle[k], throttleWin{s.Now(), s.Now() + time.Duration(ms)*time.Millisecond, r.Conn})
				hs.mu.Unlock()
				s.Count("throttles_seen", 1)
			}
		}
	})
	// event-triggered cancellation: the n-th request frame of a client
	// cancels the oldest cancellable context
	if n := int(p.Knob("cancel_on_nth_req", 0)); n > 0 {
		seen := 0
		s.OnReq = append(s.OnReq, func(r *WireReq) {
			if r.Key == 18 {
				return
			}
			if seen++; seen%n == 0 {
				hs.mu.Lock()
				var f func()
				if len(hs.cancels) > 0 {
					f = hs.cancels[0]
					hs.cancels = hs.cancels[1:]
				}
				hs.mu.Unlock()
				if f != nil {
					s.Probe("cancel_on_frame")
					go f()
				}
			}
		})
	}
	clients := map[string]*kgo.Client{}
	var wg sync.WaitGroup
	for _, a := range p.Actors {
		if clients[a.Client] == nil {
			clients[a.Client] = s.Client(a.Client, kgo.RequestRetries(int(p.Knob("request_retries", 3))))
		}
	}
	s.ScheduleTimedFaults()
	for _, a := range p.Actors {
		a := a
		cl := clients[a.Client]
		s.Go(func() {
			for i, op := range a.Ops {
				switch op.Kind {
				case "sleep":
					time.Sleep(time.Duration(op.A) * time.Millisecond)
				case "cancel":
					hs.mu.Lock()
					var f func()
					if len(hs.cancels) > 0 {
						f = hs.cancels[0]
						hs.cancels = hs.cancels[1:]
					}
					hs.mu.Unlock()
					if f != nil {
						f()
						s.Probe("cancel_from_actor")
					}
				case "req":
					if op.B >= int64(nb) {
						op.B = int64(nb) - 1
					}
					hs.call(cl, a.Name, a.Client, i, op, &wg)
				}
			}
		})
	}
	ms := func(k string, def int64) time.Duration { return time.Duration(p.Knob(k, def)) * time.Millisecond }
	// One attempt on a connection: a dial, the ApiVersions handshake and the
	// request itself can each run into the request time-out; a request waits
	// its turn behind those queued before it on the same broker, which fail
	// together when the connection dies. Client.Request adds its retries.
	attempt := ms("dial_timeout_ms", 10000) + 2*ms("req_overhead_ms", 2000)
	boundDirect := 4*attempt + 5*time.Second
	boundRetry := boundDirect + ms("retry_timeout_ms", 8000) + time.Duration(p.Knob("request_retries", 3)+1)*(attempt+6*time.Second)
	phase := ms("fault_phase_ms", 30000)
	all := s.WaitActors(phase)
	s.Heal()
	// flush frames still held by mutation 3 (the connection stays usable)
	s.Logf("HEAL (actors done=%v)", all)
	if !all {
		all = s.WaitActors(boundRetry + 30*time.Second)
	}
	waitCalls := make(chan struct{})
	go func() { wg.Wait(); close(waitCalls) }()
	select {
	case <-waitCalls:
	case <-time.After(boundRetry + 30*time.Second):
		all = false
	}
	hs.mu.Lock()
	defer hs.mu.Unlock()
	var never []string
	for _, c := range hs.calls {
		if !c.done {
			if hs.throttled(c.client, hs.creditBroker(c.broker), c.invoke, s.Now()) > 0 {
				s.Probe("call_outstanding_while_throttled")
				continue
			}
			never = append(never, fmt.Sprintf("%s (kind %d, broker %d, invoked at %v)", c.marker, c.kind, c.broker, c.invoke))
		}
	}
	if len(never) > 0 {
		sort.Strings(never)
		s.Violf("C22/call/never-returned", "%d request calls have not returned %v after the last fault was healed: %v\n%s", len(never), boundRetry+30*time.Second, firstN(never, 5), goroutineDump("kgo"))
	}
	var maxDirect, maxRetry time.Duration
	for _, c := range hs.calls {
		if !c.done {
			continue
		}
		s.Count("calls.returned", 1)
		// (Client.Request may return a merged, partly filled response next
		// to the first shard error, so "both" is legal; "neither" is not)
		if c.resp == nil && c.err == nil {
			s.Violf("C22/call/no-outcome", "call %s returned neither a response nor an error", c.marker)
		}
		if c.err != nil {
			s.Count("calls.error", 1)
			s.Count("calls.error."+errClass(c.err), 1)
		} else {
			s.Count("calls.ok", 1)
		}
		d := c.ret - c.invoke
		bound := boundRetry
		if c.broker >= 0 {
			bound = boundDirect
			if d > maxDirect {
				maxDirect = d
			}
		} else if d > maxRetry {
			maxRetry = d
		}
		if th := hs.throttled(c.client, hs.creditBroker(c.broker), c.invoke, c.ret); th > 0 {
			bound += th
			s.Probe("call_throttled")
		}
		if d > bound {
			s.Violf("C22/call/slow", "call %s (kind %d, broker %d) took %v, more than %v allowed by the configured time-outs", c.marker, c.kind, c.broker, d, bound)
		}
		// a cancelled or expired context ends the call promptly
		end := c.cancelAt
		if c.deadline > 0 {
			end = c.invoke + c.deadline
		}
		// (a request whose connection is still being set up when its
		// context ends is released when the ApiVersions read returns or
		// times out: connection set-up does not watch request contexts)
		if end > 0 && c.ret > end+2*attempt+5*time.Second+hs.throttled(c.client, hs.creditBroker(c.broker), c.invoke, c.ret) {
			s.Violf("C22/cancel/slow", "call %s returned %v after its context ended", c.marker, c.ret-end)
		}
		if end > 0 && c.ret >= end && c.err != nil {
			s.Probe("call_ended_by_context")
		}
		if c.resp != nil && c.err == nil {
			got, ok := hostileEcho(c.resp)
			if !ok {
				s.Probe("response_without_echo")
				continue
			}
			if got == c.marker {
				s.Count("calls.echo_ok", 1)
				continue
			}
			tainted := false
			for k, at := range hs.taint {
				if at <= c.ret && (c.broker < 0 && len(k) > len(c.client) && k[:len(c.client)+1] == c.client+"|" || k == fmt.Sprintf("%s|%d", c.client, c.broker)) {
					tainted = true
				}
			}
			if tainted {
				s.Probe("echo_mismatch_on_tainted_stream")
				continue
			}
			s.Violf("C22/echo/mismatch", "call %s received a response that names %q: a response was delivered to a request whose correlation id it does not carry", c.marker, got)
		}
	}
	s.Max("call_ms_direct_max", int64(maxDirect/time.Millisecond))
	s.Max("call_ms_retry_max", int64(maxRetry/time.Millisecond))
	s.Count("nontrivial", 1)
}
