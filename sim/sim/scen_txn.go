package sim

import (
	"context"
	"fmt"
	"strings"
	"sync"
	"time"

	"github.com/twmb/franz-go/pkg/kfake"
	"github.com/twmb/franz-go/pkg/kgo"
	"github.com/twmb/franz-go/pkg/kmsg"
	"github.com/twmb/franz-go/pkg/kversion"

	"verifsim/plan"
)

func init() { Scenarios["txn"] = scenTxn }

type txnRec struct {
	val  string
	tp   tpKey
	err  error
	done bool
}

type txnRun struct {
	idx            int
	client         string
	want           string // commit | abort
	outcome        string // committed | aborted | error | never-ended
	endErr         error
	retryErr       error
	recs           []*txnRec
	beginSeq       uint64
	endSeq         uint64
	brokerCommitOK bool // an EndTxn(commit) of this transaction was executed successfully by the broker
	brokerAbortOK  bool
}

type txnState struct {
	s             *Sim
	mu            sync.Mutex
	txs           []*txnRun
	cur           map[string]*txnRun // client name prefix -> current transaction
	pending       map[string]*txnRun // conn/corr -> transaction of an EndTxn request
	pendingCommit map[string]bool
}

func kfakeVersionOpt(v int64) kfake.Opt {
	switch v {
	case 1:
		return kfake.MaxVersions(kversion.V3_7_0())
	case 2:
		return kfake.MaxVersions(kversion.V2_8_0())
	}
	return nil
}

func (ts *txnState) onReq(r *WireReq) {
	req, ok := r.Req.(*kmsg.EndTxnRequest)
	if !ok || r.NoProc {
		return
	}
	ts.mu.Lock()
	defer ts.mu.Unlock()
	name := strings.SplitN(r.Conn.Client, ".", 2)[0]
	if t := ts.cur[name]; t != nil {
		k := fmt.Sprintf("%s/%d", r.Conn.Name, r.Corr)
		ts.pending[k] = t
		ts.pendingCommit[k] = req.Commit
	}
}

func (ts *txnState) onProcessed(r *WireResp) {
	resp, ok := r.Resp.(*kmsg.EndTxnResponse)
	if !ok {
		return
	}
	ts.mu.Lock()
	defer ts.mu.Unlock()
	k := fmt.Sprintf("%s/%d", r.Conn.Name, r.Corr)
	t := ts.pending[k]
	if t == nil {
		return
	}
	if resp.ErrorCode == 0 {
		if ts.pendingCommit[k] {
			t.brokerCommitOK = true
		} else {
			t.brokerAbortOK = true
		}
	}
	delete(ts.pending, k)
	delete(ts.pendingCommit, k)
}

func (ts *txnState) actor(name string, a plan.Actor) {
	s := ts.s
	p := s.P
	inc := 0
	mk := func() *kgo.Client {
		inc++
		return s.Client(fmt.Sprintf("%s.%d", name, inc), kgo.RecordPartitioner(kgo.ManualPartitioner()), kgo.TransactionalID("txn-"+name),
			kgo.TransactionTimeout(time.Duration(p.Knob("txn_timeout_ms", 10000))*time.Millisecond),
			kgo.ProducerBatchMaxBytes(int32(p.Knob("batch_max_bytes", 1000012))),
			kgo.ProducerLinger(time.Duration(p.Knob("linger_ms", 0))*time.Millisecond))
	}
	cl := mk()
	replace := func() {
		// documented: no other error is retryable; start over with a new
		// client, which fences the old one
		old := cl
		oldName := fmt.Sprintf("%s.%d", name, inc)
		done := make(chan struct{})
		go func() { s.CloseCl(old, false); close(done) }()
		select {
		case <-done:
			s.Forget(oldName)
		case <-time.After(5 * time.Minute):
			s.Violf("C13/hang/close-txn-producer", "Close of transactional producer %s did not return within 5m\n%s", oldName, goroutineDump("kgo"))
		}
		cl = mk()
		s.Probe("txn_client_replaced")
	}
	var cur *txnRun
	idx := 0
	var wg sync.WaitGroup
	for _, op := range a.Ops {
		switch op.Kind {
		case "sleep":
			time.Sleep(time.Duration(op.A) * time.Millisecond)
		case "begin":
			if cur != nil {
				continue
			}
			if err := cl.BeginTransaction(); err != nil {
				s.Logf("%s: BeginTransaction: %v", name, err)
				s.Probe("begin_error")
				replace()
				if err := cl.BeginTransaction(); err != nil {
					return
				}
			}
			ts.mu.Lock()
			cur = &txnRun{idx: len(ts.txs), client: name, beginSeq: s.Seq(), outcome: "never-ended"}
			ts.txs = append(ts.txs, cur)
			ts.cur[name] = cur
			ts.mu.Unlock()
		case "produce":
			if cur == nil {
				continue
			}
			val := fmt.Sprintf("%s/t%d/%d|", name, cur.idx, idx)
			idx++
			if n := int(op.C) - len(val); n > 0 {
				val += strings.Repeat("z", n)
			}
			tr := &txnRec{val: val, tp: tpKey{op.S, int32(op.B)}}
			ts.mu.Lock()
			cur.recs = append(cur.recs, tr)
			ts.mu.Unlock()
			wg.Add(1)
			cl.Produce(context.Background(), &kgo.Record{Topic: op.S, Partition: int32(op.B), Value: []byte(val)}, func(_ *kgo.Record, err error) {
				ts.mu.Lock()
				tr.err, tr.done = err, true
				ts.mu.Unlock()
				wg.Done()
			})
		case "commit", "abort":
			if cur == nil {
				continue
			}
			ctx, cancel := context.WithTimeout(context.Background(), 3*time.Minute)
			ferr := cl.Flush(ctx)
			want := op.Kind
			ts.mu.Lock()
			for _, r := range cur.recs {
				if !r.done || r.err != nil {
					want = "abort" // the application aborts when a record failed
				}
			}
			if ferr != nil {
				want = "abort"
			}
			cur.want = want
			ts.mu.Unlock()
			err := cl.EndTransaction(ctx, kgo.TransactionEndTry(want == "commit"))
			ts.mu.Lock()
			cur.endErr = err
			cur.endSeq = s.Seq()
			switch {
			case err != nil:
				cur.outcome = "error"
			case want == "commit":
				cur.outcome = "committed"
			default:
				cur.outcome = "aborted"
			}
			ts.mu.Unlock()
			if err != nil {
				s.Probe("endtxn_error")
				s.Logf("%s: EndTransaction(%s) of txn %d: %v", name, want, cur.idx, err)
				err2 := cl.EndTransaction(ctx, kgo.TryAbort)
				ts.mu.Lock()
				cur.retryErr = err2
				ts.mu.Unlock()
				if err2 != nil {
					s.Logf("%s: EndTransaction(TryAbort) retry of txn %d: %v", name, cur.idx, err2)
					replace()
				}
			} else {
				s.Probe("txn_" + cur.outcome)
			}
			cancel()
			ts.mu.Lock()
			delete(ts.cur, name)
			ts.mu.Unlock()
			cur = nil
		}
	}
}

func scenTxn(s *Sim) {
	p := s.P
	nb := int(p.Knob("nbroker", 2))
	nparts := int32(p.Knob("nparts", 2))
	kopts := []kfake.Opt{kfake.SeedTopics(nparts, "t0")}
	if o := kfakeVersionOpt(p.Knob("kafka_ver", 0)); o != nil {
		kopts = append(kopts, o)
	}
	s.StartCluster(nb, kopts...)
	ts := &txnState{s: s, cur: map[string]*txnRun{}, pending: map[string]*txnRun{}, pendingCommit: map[string]bool{}}
	s.OnReq = append(s.OnReq, ts.onReq)
	s.OnProcessed = append(s.OnProcessed, ts.onProcessed)
	for _, ev := range p.Events {
		ev := ev
		s.At(time.Duration(ev.AtMs)*time.Millisecond, func() {
			switch ev.Kind {
			case "move", "shuffle":
				produceEnvEvent(s, nil, ev, nb, nparts)
			case "rehash":
				s.Cluster.RehashCoordinators()
				s.Count("env.rehash_coordinators", 1)
			}
		})
	}
	s.ScheduleTimedFaults()
	for _, a := range p.Actors {
		a := a
		s.Go(func() { ts.actor(a.Client, a) })
	}
	done := s.WaitActors(time.Duration(p.Knob("fault_phase_ms", 120000)) * time.Millisecond)
	s.Heal()
	if !done {
		done = s.WaitActors(6 * time.Minute)
	}
	if !done {
		s.Violf("C11/hang/transaction-api", "a transactional producer is still blocked 6m after heal\n%s", goroutineDump("kgo"))
		return
	}
	s.Count("nontrivial", 1)
	// anything left open is aborted by the transaction time-out
	time.Sleep(time.Duration(p.Knob("txn_timeout_ms", 10000)+5000) * time.Millisecond)
	admin := s.Raw("admin")
	defer admin.Close()
	logs := map[tpKey]*RefLog{}
	for q := int32(0); q < nparts; q++ {
		l, err := admin.ReadLog("t0", q)
		if err != nil {
			s.OutOfScope("could not read the final logs")
			return
		}
		logs[tpKey{"t0", q}] = l
	}
	// value -> visibility
	vis := map[string]string{} // committed | aborted | open | absent
	for _, l := range logs {
		for _, r := range l.Records {
			v := string(r.Value)
			switch {
			case l.Committed[r.Offset]:
				if vis[v] == "committed" {
					s.Violf("C11/duplicate-committed", "record %.30q is visible twice under read_committed", v)
				}
				vis[v] = "committed"
			case l.Open[r.Offset]:
				if vis[v] == "" {
					vis[v] = "open"
				}
			default:
				if vis[v] == "" {
					vis[v] = "aborted"
				}
			}
		}
	}
	ts.mu.Lock()
	defer ts.mu.Unlock()
	for _, t := range ts.txs {
		var nvis, nacked int
		var firstVis, firstInvis string
		for _, r := range t.recs {
			if vis[r.val] == "committed" {
				nvis++
				if firstVis == "" {
					firstVis = r.val
				}
			} else if firstInvis == "" && r.done && r.err == nil {
				firstInvis = r.val
			}
			if r.done && r.err == nil {
				nacked++
			}
		}
		s.Count("txn."+t.outcome, 1)
		switch t.outcome {
		case "committed":
			for _, r := range t.recs {
				if r.done && r.err == nil && vis[r.val] != "committed" {
					s.Violf("C11/commit-reported-but-not-visible", "transaction %d of %s: EndTransaction(commit) returned nil but acked record %.30q is %s in the final read_committed view", t.idx, t.client, r.val, orAbsent(vis[r.val]))
					break
				}
			}
		case "aborted":
			if nvis > 0 {
				s.Violf("C11/abort-reported-but-visible", "transaction %d of %s: EndTransaction(abort) returned nil but %d of its records are visible under read_committed (e.g. %.30q)", t.idx, t.client, nvis, firstVis)
			}
		case "error", "never-ended":
			if t.brokerCommitOK {
				// unconfirmed outcome: the broker executed a commit the
				// client could not confirm; nobody can take it back. Only
				// atomicity is required.
				s.Probe("unconfirmed_commit")
				if nvis > 0 && nvis < nacked {
					s.Violf("C11/unconfirmed/partial", "transaction %d of %s: outcome unconfirmed, %d of %d acked records visible - not atomic (visible %.30q, invisible %.30q)", t.idx, t.client, nvis, nacked, firstVis, firstInvis)
				}
				continue
			}
			if nvis > 0 {
				s.Violf("C11/error-reported-but-visible", "transaction %d of %s: EndTransaction returned %v (retry: %v) and no commit of it was executed by the broker, yet %d of its records are visible under read_committed (e.g. %.30q)", t.idx, t.client, t.endErr, t.retryErr, nvis, firstVis)
			}
		}
	}
}

func orAbsent(s string) string {
	if s == "" {
		return "absent"
	}
	return s
}
