package sim

// Scenarios maps plan.Scenario to the function run inside the bubble.
var Scenarios = map[string]func(*Sim){}
