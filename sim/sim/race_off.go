//go:build !race

package sim

const raceBuild = false
