package sim

import (
	"container/heap"
	crand "crypto/rand"
	"encoding/binary"

	"fmt"
	"github.com/twmb/franz-go/pkg/kbin"
	"hash/fnv"
	"math/rand"
	"os"
	"runtime"
	"runtime/pprof"
	"sort"
	"strings"
	"sync"
	"sync/atomic"
	"testing"
	"testing/synctest"
	"time"
	"unsafe"

	"github.com/twmb/franz-go/pkg/kfake"
	"github.com/twmb/franz-go/pkg/kgo"
	"github.com/twmb/franz-go/pkg/kmsg"

	"verifsim/plan"
)

const basePort = 9092

// Sim is one simulated world: one bubble, one kfake cluster, any number of
// kgo clients, the simulated network and the driver.
type Sim struct {
	logDraws bool     // diagnostics: record the seeded-stream position at every log line
	drawLog  []uint64 // (draws, yield-trace hash) per log line, preallocated
	T        *testing.T
	P        *plan.Plan
	Rng      *rand.Rand // scenario-level choices that are not part of the plan
	Net      *SimNet
	Cluster  *kfake.Cluster
	NBroker  int

	start time.Time
	seq   atomic.Uint64

	mu     sync.Mutex
	viol   []plan.Violation
	oos    string
	stats  map[string]int64
	logs   []string
	logN   int
	wireH  uint64
	drng   *rand.Rand
	healed bool

	rules []*rule
	evq   evHeap
	evSeq uint64

	stop chan struct{}
	done chan struct{}

	// monitors
	OnReq  []func(*WireReq)
	OnResp []func(*WireResp)
	// OnProcessed sees every genuine broker response at the moment the
	// broker wrote it (ground truth of what the broker did), whether or not
	// it is later lost, delayed or rewritten. Called from broker goroutines.
	OnProcessed []func(*WireResp)
	// OnWritten sees every request frame at the moment the client wrote it
	// (the client's own write order across connections), before delivery.
	// Called from client goroutines; only installed when non-empty at
	// StartCluster time.
	OnWritten []func(*WireReq)
	// Mutate lets a scenario (C21/C22) rewrite raw response frames.
	Mutate func(c *Conn, ri *reqInfo, frame []byte) (out [][]byte, kill bool)
	// RewriteReq may return a replacement for a request before it reaches
	// the broker (nil: unchanged)
	RewriteReq func(*WireReq) kmsg.Request

	Invariants []func()

	clients map[string]*kgo.Client
	actors  sync.WaitGroup
	nactors atomic.Int64
	simEnd  time.Duration
	driving bool

	topicIDs map[[16]byte]string // learned from Metadata responses on the wire
	wirelog  bool
	rngMu    sync.Mutex

	// C13 closer (closer.go)
	closeOnces   map[*kgo.Client]*closeOnce
	pendingHooks *closeHooks
	clientOrd    int
	closer       *closer
}

// TopicByID resolves a topic id seen on the wire.
func (s *Sim) TopicByID(id [16]byte) string { return s.topicIDs[id] }

func (s *Sim) learnTopics(r *WireResp) {
	m, ok := r.Resp.(*kmsg.MetadataResponse)
	if !ok {
		return
	}
	for _, t := range m.Topics {
		if t.Topic != nil && t.ErrorCode == 0 {
			s.topicIDs[t.TopicID] = *t.Topic
		}
	}
}

// reqTopic returns the topic name of a request item that may carry only an id.
func (s *Sim) reqTopic(name string, id [16]byte) string {
	if name != "" {
		return name
	}
	return s.topicIDs[id]
}

type rule struct {
	plan.Fault
	seen  int
	fired bool
}

type event struct {
	at     time.Time
	seq    uint64
	fn     func()
	inline bool // run in the driver goroutine (must not block)
}
type evHeap []*event

func (h evHeap) Len() int { return len(h) }
func (h evHeap) Less(i, j int) bool {
	if !h[i].at.Equal(h[j].at) {
		return h[i].at.Before(h[j].at)
	}
	return h[i].seq < h[j].seq
}
func (h evHeap) Swap(i, j int) { h[i], h[j] = h[j], h[i] }
func (h *evHeap) Push(x any)   { *h = append(*h, x.(*event)) }
func (h *evHeap) Pop() any {
	o := *h
	x := o[len(o)-1]
	*h = o[:len(o)-1]
	return x
}

// Pick draws from the scenario's seeded stream; safe for concurrent use.
func (s *Sim) Pick(n int) int {
	s.rngMu.Lock()
	defer s.rngMu.Unlock()
	return s.Rng.Intn(n)
}

// UserCode models application code inside a callback (hook, promise) taking
// time: with the plan's probabilities it gives up the processor (everything
// else runnable goes first) or sleeps for a short simulated time (everything
// else proceeds, frames are delivered). Callbacks that take time are legal
// and are where overlapping internal work meets the callback's caller.
func (s *Sim) UserCode() {
	y, sl := s.P.Knob("cb_yield_pct", 0), s.P.Knob("cb_sleep_pct", 0)
	if y == 0 && sl == 0 {
		return
	}
	x := int64(s.Pick(100))
	switch {
	case x < y:
		s.Count("cb.yields", 1)
		runtime.Gosched()
	case x < y+sl:
		s.Count("cb.sleeps", 1)
		time.Sleep(time.Duration(50+s.Pick(int(s.P.Knob("cb_sleep_us_max", 3000)))) * time.Microsecond)
	}
}

// Seq returns the next global event sequence number.
func (s *Sim) Seq() uint64 { return s.seq.Add(1) }

// Now is simulated time since the start of the run.
func (s *Sim) Now() time.Duration { return time.Since(s.start) }

func (s *Sim) Violf(class, f string, a ...any) {
	s.mu.Lock()
	if len(s.viol) < 50 {
		s.viol = append(s.viol, plan.Violation{Class: class, Msg: fmt.Sprintf("[t=%v] ", s.Now().Round(time.Microsecond)) + fmt.Sprintf(f, a...)})
	}
	s.mu.Unlock()
	s.Logf("VIOLATION %s: %s", class, fmt.Sprintf(f, a...))
}

func (s *Sim) OutOfScope(why string) {
	s.mu.Lock()
	if s.oos == "" {
		s.oos = why
	}
	s.mu.Unlock()
}

func (s *Sim) Count(name string, n int64) {
	s.mu.Lock()
	s.stats[name] += n
	s.mu.Unlock()
}
func (s *Sim) Probe(name string) { s.Count("probe."+name, 1) }
func (s *Sim) Max(name string, v int64) {
	s.mu.Lock()
	if s.stats[name] < v {
		s.stats[name] = v
	}
	s.mu.Unlock()
}

var logRing = 6000
var logStderr bool

// Logf appends to the in-memory log ring; nothing is written during a run.
func (s *Sim) Logf(f string, a ...any) {
	l := fmt.Sprintf("%12.6f ", s.Now().Seconds()) + fmt.Sprintf(f, a...)
	if s.logDraws && len(s.drawLog)+2 <= cap(s.drawLog) {
		d, t := rtDraws()
		s.drawLog = append(s.drawLog, d, t)
	}
	if logStderr {
		// diagnostics only (a run that never ends leaves no result to read
		// the log from); writing perturbs the schedule
		os.Stderr.WriteString(l + "\n")
	}
	s.mu.Lock()
	if len(s.logs) < logRing {
		s.logs = append(s.logs, l)
	} else {
		s.logs[s.logN%logRing] = l
	}
	s.logN++
	s.mu.Unlock()
}

func (s *Sim) logTail(n int) []string {
	s.mu.Lock()
	defer s.mu.Unlock()
	var out []string
	if len(s.logs) < logRing {
		out = append(out, s.logs...)
	} else {
		i := s.logN % logRing
		out = append(out, s.logs[i:]...)
		out = append(out, s.logs[:i]...)
	}
	if len(out) > n {
		out = out[len(out)-n:]
	}
	return out
}

type kgoLogger struct{ s *Sim }

func (l *kgoLogger) Level() kgo.LogLevel { return kgo.LogLevelDebug }
func (l *kgoLogger) Log(level kgo.LogLevel, msg string, keyvals ...any) {
	if raceBuild {
		// no shared lock, no formatting: only the seeded yield
		rtYield(0x10c)
		return
	}
	var b strings.Builder
	b.WriteString("KGO ")
	b.WriteString(msg)
	for i := 0; i+1 < len(keyvals); i += 2 {
		fmt.Fprintf(&b, " %v=%v", keyvals[i], keyvals[i+1])
	}
	l.s.Logf("%s", b.String())
	// the logger is application code too: it may take time (seeded yield)
	if y := l.s.P.Knob("log_yield_pct", 0); y > 0 && int64(l.s.Pick(100)) < y {
		l.s.Count("log.yields", 1)
		runtime.Gosched()
	}
	// ... and a warning or error may go to a slow sink
	if sl := l.s.P.Knob("log_sleep_pct", 0); sl > 0 && level <= kgo.LogLevelWarn && int64(l.s.Pick(100)) < sl {
		l.s.Count("log.sleeps", 1)
		time.Sleep(time.Duration(100+l.s.Pick(int(l.s.P.Knob("log_sleep_max_us", 5000)))) * time.Microsecond)
	}
}

type kfakeLogger struct{ s *Sim }

func (l *kfakeLogger) Logf(level kfake.LogLevel, f string, a ...any) {
	if raceBuild {
		return
	}
	l.s.Logf("KFAKE "+f, a...)
}

type seededReader struct{ r *rand.Rand }

func (s seededReader) Read(p []byte) (int, error) { return s.r.Read(p) }

// Run executes body inside a bubble with a cluster and a driver and returns
// the result. It must be called at most once per process.
func Run(t *testing.T, p *plan.Plan, body func(s *Sim)) *plan.Result {
	threadsAtStart := pprof.Lookup("threadcreate").Count()
	rtSeed(p.Seed, uint32(p.Knob("sched", 0)), uint32(p.Knob("yield", 0)))
	rand.Seed(int64(p.Seed))
	crand.Reader = seededReader{rand.New(rand.NewSource(int64(p.Seed ^ 0x5eed)))}
	s := &Sim{T: t, P: p, stats: map[string]int64{}, clients: map[string]*kgo.Client{}, topicIDs: map[[16]byte]string{}, closeOnces: map[*kgo.Client]*closeOnce{}}
	s.OnResp = append(s.OnResp, s.learnTopics)
	s.wirelog = p.Knob("wirelog", 0) != 0
	if p.Knob("evlog", 0) != 0 {
		rtEvLogOn()
	}
	if s.logDraws = p.Knob("logdraws", 0) != 0; s.logDraws {
		s.drawLog = make([]uint64, 0, 1<<21)
	}
	if v := p.Knob("logring", 0); v > 0 {
		logRing = int(v)
	}
	logStderr = p.Knob("logstderr", 0) != 0
	wall := time.Now()
	func() {
		defer func() {
			if r := recover(); r != nil {
				msg := fmt.Sprint(r)
				if strings.Contains(msg, "deadlock") {
					s.Violf(p.Prop+"/hang/bubble-deadlock", "bubble deadlock: %v", msg)
				} else {
					s.Violf(p.Prop+"/panic", "panic: %v", msg)
				}
			}
		}()
		synctest.Test(t, func(t *testing.T) {
			s.start = time.Now()
			s.Rng = rand.New(rand.NewSource(int64(p.Seed ^ 0xabcdef)))
			s.drng = rand.New(rand.NewSource(int64(p.Seed ^ 0x9e3779b9)))
			s.Net = NewSimNet(p.Seed, basePort)
			s.Net.latMode = p.Knob("latmode", 0)
			s.Net.dialTimeout = time.Duration(p.Knob("dial_timeout_ms", 10000)) * time.Millisecond
			s.Net.onServerWrite = s.serverWrote
			s.Net.onClientWrite = s.clientWrote
			s.stop = make(chan struct{})
			s.done = make(chan struct{})
			for i := range p.Faults {
				s.rules = append(s.rules, &rule{Fault: p.Faults[i]})
			}
			defer func() {
				// A panic in the scenario body: stop the driver so the
				// bubble can end, then re-panic.
				if r := recover(); r != nil {
					s.Violf(p.Prop+"/panic", "panic in scenario: %v\n%s", r, stack())
					s.shutdown()
				}
			}()
			body(s)
			s.shutdown()
		})
	}()
	th, yields := rtTrace()
	s.stats["yields"] = int64(yields)
	s.stats["spinbreaks"] = int64(rtSpinBreaks())
	s.stats["sim_ms"] = int64(s.simEnd / time.Millisecond)
	s.stats["wall_ms"] = int64(time.Since(wall) / time.Millisecond)
	if p.Knob("addrprobe", 0) != 0 {
		x := new([64]byte)
		s.stats["addr_probe"] = int64(uintptr(unsafe.Pointer(x)))
		s.stats["threads_at_end"] = int64(pprof.Lookup("threadcreate").Count())
		s.stats["threads_at_start"] = int64(threadsAtStart)
		nb, names := rtNonBubble()
		s.stats["nonbubble_readies"] = int64(nb)
		if names != "" {
			s.stats["nb:"+names] = 1
		}
	}
	res := &plan.Result{Prop: p.Prop, Seed: p.Seed, Violations: s.viol, OutOfScope: s.oos, Stats: s.stats,
		TraceHash: fmt.Sprintf("%016x-%016x", s.wireH, th)}
	if len(s.viol) > 0 || p.Knob("keeplog", 0) != 0 {
		res.Log = s.logTail(int(p.Knob("logtail", 1500)))
	}
	if p.Knob("evlog", 0) != 0 {
		res.Log = append(res.Log, "EVLOG")
		for _, e := range rtEvLog() {
			res.Log = append(res.Log, fmt.Sprintf("ev k=%d g=%d v=%d", e>>56, (e>>32)&0xffffff, e&0xffffffff))
		}
	}
	if s.logDraws {
		// line i of the log was written at stream position d with yield-trace hash t
		for i := 0; i+1 < len(s.drawLog); i += 2 {
			j := i / 2
			if j < len(res.Log) {
				res.Log[j] = fmt.Sprintf("[d=%d t=%016x] %s", s.drawLog[i], s.drawLog[i+1], res.Log[j])
			}
		}
	}
	return res
}

func stack() string {
	b := make([]byte, 1<<16)
	return string(b[:runtime.Stack(b, false)])
}

func (s *Sim) shutdown() {
	s.simEnd = s.Now()
	for _, name := range s.sortedClients() {
		s.mu.Lock()
		cl := s.clients[name]
		s.mu.Unlock()
		if cl == nil {
			continue // closed and forgotten by the scenario meanwhile
		}
		done := make(chan struct{})
		go func() { s.CloseCl(cl, s.P.Knob("block_rebalance", 0) != 0); close(done) }()
		select {
		case <-done:
		case <-time.After(10 * time.Minute):
			// the run must end with a verdict, not with the harness waiting
			// for ever behind a Close that never returns
			s.Violf("C13/hang/close-at-shutdown", "Close of %s at the end of the run did not return within 10m\n%s", name, goroutineDump("kgo"))
		}
	}
	if s.stop != nil {
		select {
		case <-s.stop:
		default:
			close(s.stop)
			if s.driving {
				<-s.done
			}
		}
	}
	if s.Cluster != nil {
		s.Cluster.Close()
	}
	// Everything is closed: after a grace period no goroutine of the client
	// may be left in the bubble (C13), and none of the harness either.
	time.Sleep(2 * time.Minute)
	synctest.Wait()
	left := bubbleGoroutines()
	var kgoLeft, other []string
	for _, g := range left {
		if strings.Contains(g, "pkg/kgo.") {
			kgoLeft = append(kgoLeft, g)
		} else {
			other = append(other, g)
		}
	}
	if len(kgoLeft) > 0 {
		s.Violf("C13/leak/goroutine", "%d client goroutines still exist 2m after every client was closed:\n%s", len(kgoLeft), strings.Join(firstN(kgoLeft, 6), "\n\n"))
	}
	if len(other) > 0 {
		s.Logf("LEFTOVER goroutines (not kgo): %d\n%s", len(other), strings.Join(firstN(other, 6), "\n\n"))
		s.Count("leftover_goroutines", int64(len(other)))
	}
}

func firstN(s []string, n int) []string {
	if len(s) > n {
		return s[:n]
	}
	return s
}

// bubbleGoroutines returns the stacks of all goroutines of the bubble except
// the caller.
func bubbleGoroutines() []string {
	buf := make([]byte, 8<<20)
	buf = buf[:runtime.Stack(buf, true)]
	var out []string
	for i, g := range strings.Split(string(buf), "\n\n") {
		if i == 0 || !strings.Contains(g, "synctest bubble") || strings.Contains(g, "internal/synctest.Run(") || strings.Contains(g, "testingSynctestTest(") {
			continue
		}
		out = append(out, g)
	}
	return out
}

func (s *Sim) sortedClients() []string {
	var names []string
	for n := range s.clients {
		names = append(names, n)
	}
	sort.Strings(names)
	return names
}

// StartCluster creates the kfake cluster (real code) on the simulated network
// and starts the driver.
func (s *Sim) StartCluster(nbroker int, opts ...kfake.Opt) {
	ports := make([]int, nbroker)
	for i := range ports {
		ports[i] = basePort + i
	}
	s.NBroker = nbroker
	all := append([]kfake.Opt{kfake.NumBrokers(nbroker), kfake.Ports(ports...), kfake.ListenFn(s.Net.Listen), kfake.WithLogger(&kfakeLogger{s})}, opts...)
	c, err := kfake.NewCluster(all...)
	if err != nil {
		panic(fmt.Sprintf("kfake.NewCluster: %v", err))
	}
	s.Cluster = c
	s.StartDriver()
}

func (s *Sim) StartDriver() {
	if s.driving {
		return
	}
	s.driving = true
	go s.drive()
}

// BaseOpts are the client options every simulated client gets.
func (s *Sim) BaseOpts(name string) []kgo.Opt {
	return append(s.closerOpts(), []kgo.Opt{
		kgo.SeedBrokers(fmt.Sprintf("127.0.0.1:%d", basePort)),
		kgo.Dialer(s.Net.Dialer(name)),
		kgo.WithLogger(&kgoLogger{s}),
		kgo.ClientID(name),
		kgo.RequestTimeoutOverhead(time.Duration(s.P.Knob("req_overhead_ms", 2000)) * time.Millisecond),
		kgo.RetryTimeout(time.Duration(s.P.Knob("retry_timeout_ms", 8000)) * time.Millisecond),
		kgo.MetadataMinAge(time.Duration(s.P.Knob("meta_min_ms", 100)) * time.Millisecond),
		kgo.MetadataMaxAge(time.Duration(s.P.Knob("meta_max_ms", 5000)) * time.Millisecond),
	}...)
}

// Client creates a named kgo client on the simulated network. It is closed
// automatically at the end of the run if the scenario did not close it.
func (s *Sim) Client(name string, opts ...kgo.Opt) *kgo.Client {
	cl, err := kgo.NewClient(append(s.BaseOpts(name), opts...)...)
	if err != nil {
		panic(fmt.Sprintf("kgo.NewClient(%s): %v", name, err))
	}
	s.mu.Lock()
	s.clients[name] = cl
	s.mu.Unlock()
	s.registerClient(name, cl)
	return cl
}

// Adopt registers a client created elsewhere for automatic closing.
func (s *Sim) Adopt(name string, cl *kgo.Client) {
	s.mu.Lock()
	s.clients[name] = cl
	s.mu.Unlock()
	s.registerClient(name, cl)
}

// Forget removes a client from the auto-close list (the scenario closed it).
func (s *Sim) Forget(name string) {
	s.mu.Lock()
	delete(s.clients, name)
	s.mu.Unlock()
}

// Go runs an actor goroutine inside the bubble.
func (s *Sim) Go(fn func()) {
	s.actors.Add(1)
	s.nactors.Add(1)
	go func() {
		defer s.actors.Done()
		defer s.nactors.Add(-1)
		fn()
	}()
}

// WaitActors waits until every actor returned or bound of simulated time
// passed; it reports whether all returned.
func (s *Sim) WaitActors(bound time.Duration) bool {
	ch := make(chan struct{})
	go func() { s.actors.Wait(); close(ch) }()
	t := time.NewTimer(bound)
	defer t.Stop()
	select {
	case <-ch:
		return true
	case <-t.C:
		return false
	}
}

// WaitFor polls cond at simulated intervals until it holds or bound passes.
func (s *Sim) WaitFor(bound, step time.Duration, cond func() bool) bool {
	dl := time.Now().Add(bound)
	for {
		if cond() {
			return true
		}
		if time.Now().After(dl) {
			return false
		}
		time.Sleep(step)
	}
}

// Heal turns every fault rule off and restores all links.
func (s *Sim) Heal() {
	s.mu.Lock()
	s.healed = true
	s.mu.Unlock()
	n := s.Net
	n.mu.Lock()
	for k := range n.dialBlock {
		delete(n.dialBlock, k)
	}
	n.mu.Unlock()
	s.AtDriver(s.Now(), func() {
		for _, c := range s.conns() {
			c.stalledUntil = time.Time{}
			c.setExtra(0)
			if c.blackhole && !c.dead.Load() {
				// a half-open connection cannot be healed; reset it
				c.kill()
			}
		}
	})
}

func (s *Sim) Healed() bool {
	s.mu.Lock()
	defer s.mu.Unlock()
	return s.healed
}

// At schedules fn at simulated time d after the start of the run; fn runs in
// its own goroutine so the driver never blocks.
func (s *Sim) At(d time.Duration, fn func()) { s.at(d, fn, false) }

// AtDriver schedules a non-blocking fn to run inside the driver goroutine.
func (s *Sim) AtDriver(d time.Duration, fn func()) { s.at(d, fn, true) }

func (s *Sim) at(d time.Duration, fn func(), inline bool) {
	s.mu.Lock()
	s.evSeq++
	heap.Push(&s.evq, &event{at: s.start.Add(d), seq: s.evSeq, fn: fn, inline: inline})
	s.mu.Unlock()
	s.Net.poke()
}

func (s *Sim) hashWire(parts ...uint64) {
	h := s.wireH
	for _, p := range parts {
		h = (h ^ p) * 0x100000001b3
	}
	s.wireH = h
}

// drive is the discrete-event loop. It is the only goroutine that calls
// synctest.Wait.
func (s *Sim) drive() {
	defer close(s.done)
	burst := s.P.Knob("burst", 0)
	var lastBreaks uint64
	for {
		synctest.Wait()
		// A wake-up that the spin guard did not cause (no busy loop was made
		// to sleep since the last one) means the system went idle by itself:
		// whatever yields were counted since are not a spin.
		if b := rtSpinBreaksNow(); b == lastBreaks {
			rtSpinReset()
		} else {
			lastBreaks = b
		}
		select {
		case <-s.stop:
			return
		default:
		}
		for _, inv := range s.Invariants {
			inv()
		}
		select {
		case <-s.Net.activity:
		default:
		}
		now := time.Now()
		did := 0
		for {
			if !s.stepOnce(now) {
				break
			}
			did++
			if burst == 0 || int64(s.drng.Intn(100)) >= burst {
				break
			}
		}
		if did > 0 {
			// the spin guard (VerifYield) counts yields since the driver
			// last DID something. A wake-up that found nothing due - the
			// guard's own sleep makes the bubble idle - does not reset it:
			// a loop that spins until an event seconds away would otherwise
			// need 200000 yields per simulated microsecond.
			rtSpinReset()
			continue
		}
		next := s.nextDue(now)
		var tm *time.Timer
		var tc <-chan time.Time
		if !next.IsZero() {
			d := next.Sub(now)
			if d < 0 {
				d = 0
			}
			tm = time.NewTimer(d)
			tc = tm.C
		}
		select {
		case <-tc:
		case <-s.Net.activity:
		case <-s.stop:
			if tm != nil {
				tm.Stop()
			}
			return
		}
		if tm != nil {
			tm.Stop()
		}
	}
}

type dueItem struct {
	at   time.Time
	name string
	h    *half
	ev   *event
}

func (s *Sim) conns() []*Conn {
	s.Net.mu.Lock()
	defer s.Net.mu.Unlock()
	return append([]*Conn(nil), s.Net.conns...)
}

func (s *Sim) effAt(c *Conn, f *frame) time.Time {
	at := f.at
	if c.stalledUntil.After(at) {
		at = c.stalledUntil
	}
	return at
}

// stepOnce performs the earliest due item, if any.
func (s *Sim) stepOnce(now time.Time) bool {
	var best *dueItem
	consider := func(d *dueItem) {
		if d.at.After(now) {
			return
		}
		if best == nil || d.at.Before(best.at) || (d.at.Equal(best.at) && d.name < best.name) {
			best = d
		}
	}
	s.mu.Lock()
	if len(s.evq) > 0 {
		consider(&dueItem{at: s.evq[0].at, name: "", ev: s.evq[0]})
	}
	s.mu.Unlock()
	for _, c := range s.conns() {
		if c.dead.Load() {
			continue
		}
		for _, h := range []*half{c.c2s, c.s2c} {
			h.mu.Lock()
			if len(h.q) > 0 && !h.closed {
				consider(&dueItem{at: s.effAt(c, h.q[0]), name: h.name, h: h})
			}
			h.mu.Unlock()
		}
	}
	if best == nil {
		return false
	}
	if best.ev != nil {
		s.mu.Lock()
		ev := heap.Pop(&s.evq).(*event)
		s.mu.Unlock()
		if ev.inline {
			ev.fn()
		} else {
			go ev.fn()
		}
		return true
	}
	s.deliver(best.h, now)
	return true
}

func (s *Sim) nextDue(now time.Time) time.Time {
	var next time.Time
	upd := func(t time.Time) {
		if next.IsZero() || t.Before(next) {
			next = t
		}
	}
	s.mu.Lock()
	if len(s.evq) > 0 {
		upd(s.evq[0].at)
	}
	s.mu.Unlock()
	for _, c := range s.conns() {
		if c.dead.Load() {
			continue
		}
		for _, h := range []*half{c.c2s, c.s2c} {
			h.mu.Lock()
			if len(h.q) > 0 && !h.closed {
				upd(s.effAt(c, h.q[0]))
			}
			h.mu.Unlock()
		}
	}
	return next
}

// matchRule finds the first armed frame-triggered rule of one of the given
// kinds whose n-th matching frame this is.
func (s *Sim) matchRules(c *Conn, key int16, kinds ...string) *rule {
	s.mu.Lock()
	healed := s.healed
	s.mu.Unlock()
	if healed {
		return nil
	}
	var hit *rule
	for _, r := range s.rules {
		if r.fired || r.Nth <= 0 {
			continue
		}
		ok := false
		for _, k := range kinds {
			if r.Kind == k {
				ok = true
			}
		}
		if !ok {
			continue
		}
		if r.Client != "" && r.Client != c.Client {
			continue
		}
		if r.Broker >= 0 && r.Broker != c.Broker {
			continue
		}
		if r.Key >= 0 && r.Key != key {
			continue
		}
		r.seen++
		if r.seen == r.Nth && hit == nil {
			r.fired = true
			hit = r
		}
	}
	return hit
}

func (s *Sim) deliver(h *half, now time.Time) {
	c := h.conn
	h.mu.Lock()
	f := h.q[0]
	h.q = h.q[1:]
	h.mu.Unlock()
	if h.c2s {
		s.deliverReq(c, h, f, now)
	} else {
		s.deliverResp(c, h, f, now)
	}
}

func (s *Sim) deliverReq(c *Conn, h *half, f *frame, now time.Time) {
	key, ver, corr, cid, body, ok := parseReqHeader(f.data)
	if !ok {
		// not a Kafka request (should not happen): pass through
		s.hashWire(uint64(s.Now()), hashStr(h.name), uint64(f.idx), uint64(len(f.data)), 99)
		h.deliverBytes(f.data)
		return
	}
	ri := &reqInfo{key: key, ver: ver, corr: corr, body: body, sentAt: now, seq: s.Seq()}
	wr := &WireReq{Seq: ri.seq, T: s.Now(), Conn: c, Key: key, Ver: ver, Corr: corr, ClientID: cid, Raw: f.data}
	wr.Req = decodeReq(key, ver, body)
	if pr, ok := wr.Req.(*kmsg.ProduceRequest); ok && pr.Acks == 0 {
		ri.noResp = true
	}
	action := uint64(0)
	if r := s.matchRules(c, key, "kill_req", "err_noproc", "partial_write", "delay", "stall", "half_open"); r != nil {
		switch r.Kind {
		case "kill_req":
			s.Count("fault.kill_req", 1)
			s.Logf("FAULT kill_req %s key=%d corr=%d", c.Name, key, corr)
			s.hashWire(uint64(s.Now()), hashStr(h.name), uint64(f.idx), 1)
			c.kill()
			return
		case "partial_write":
			s.Count("fault.partial_write", 1)
			k := int(r.Arg)
			if k <= 0 || k >= len(f.data) {
				k = len(f.data) / 2
			}
			s.Logf("FAULT partial_write %s key=%d corr=%d bytes=%d/%d", c.Name, key, corr, k, len(f.data))
			s.hashWire(uint64(s.Now()), hashStr(h.name), uint64(f.idx), 2)
			h.deliverBytes(f.data[:k])
			c.kill()
			return
		case "err_noproc":
			if wr.Req != nil {
				if resp := fabricate(wr.Req, r.Code); resp != nil {
					s.Count("fault.err_noproc", 1)
					s.Logf("FAULT err_noproc %s key=%d corr=%d code=%d", c.Name, key, corr, r.Code)
					wr.NoProc = true
					c.setOutstanding(corr, ri)
					c.order = append(c.order, corr)
					c.fab[corr] = encodeResp(corr, resp)
					s.flushFab(c, now)
					for _, fn := range s.OnReq {
						fn(wr)
					}
					s.hashWire(uint64(s.Now()), hashStr(h.name), uint64(f.idx), 3)
					return
				}
			}
			r.fired = false // could not apply; stay armed for the next frame
			r.seen--
		case "delay":
			s.Count("fault.delay", 1)
			s.Logf("FAULT delay %s key=%d corr=%d dur=%dms", c.Name, key, corr, r.DurMs)
			h.mu.Lock()
			f.at = now.Add(time.Duration(r.DurMs) * time.Millisecond)
			if h.lastAt.Before(f.at) {
				h.lastAt = f.at
			}
			for _, g := range h.q {
				if g.at.Before(f.at) {
					g.at = f.at
				}
			}
			h.q = append([]*frame{f}, h.q...)
			h.mu.Unlock()
			return
		case "stall":
			s.Count("fault.stall", 1)
			s.Logf("FAULT stall %s dur=%dms", c.Name, r.DurMs)
			c.stalledUntil = now.Add(time.Duration(r.DurMs) * time.Millisecond)
			h.mu.Lock()
			h.q = append([]*frame{f}, h.q...)
			h.mu.Unlock()
			return
		case "half_open":
			s.Count("fault.half_open", 1)
			s.Logf("FAULT half_open %s", c.Name)
			c.blackhole = true
			action = 4
		}
	}
	if !ri.noResp {
		c.setOutstanding(corr, ri)
		c.order = append(c.order, corr)
	}
	if s.RewriteReq != nil && wr.Req != nil {
		// the environment may change a request on its way (another client
		// implementation, state the client itself no longer produces); the
		// monitors see what the broker sees
		if nreq := s.RewriteReq(wr); nreq != nil {
			wr.Req = nreq
			buf := []byte{0, 0, 0, 0}
			buf = kbin.AppendInt16(buf, key)
			buf = kbin.AppendInt16(buf, ver)
			buf = kbin.AppendInt32(buf, corr)
			buf = kbin.AppendNullableString(buf, &cid)
			if nreq.IsFlexible() {
				buf = append(buf, 0)
			}
			buf = nreq.AppendTo(buf)
			binary.BigEndian.PutUint32(buf, uint32(len(buf)-4))
			f.data = buf
			wr.Raw = buf
			s.Count("env.request_rewritten", 1)
		}
	}
	for _, fn := range s.OnReq {
		fn(wr)
	}
	if s.wirelog {
		s.Logf("WIRE > %s corr=%d %s", c.Name, corr, summarize(s, wr.Req))
	}
	s.Count("frames.req", 1)
	s.hashWire(uint64(s.Now()), hashStr(h.name), uint64(f.idx), uint64(len(f.data)), action)
	h.deliverBytes(f.data)
}

// flushFab frames fabricated responses whose turn has come (responses on a
// connection are in request order).
func (s *Sim) flushFab(c *Conn, now time.Time) {
	for len(c.order) > 0 {
		corr := c.order[0]
		b, ok := c.fab[corr]
		if !ok {
			return
		}
		delete(c.fab, corr)
		c.order = c.order[1:]
		c.s2c.mu.Lock()
		if !c.s2c.closed {
			c.s2c.enqueueLocked(b, now, true)
		}
		c.s2c.mu.Unlock()
	}
}

func (s *Sim) deliverResp(c *Conn, h *half, f *frame, now time.Time) {
	if len(f.data) < 8 {
		h.deliverBytes(f.data)
		return
	}
	corr := int32(binary.BigEndian.Uint32(f.data[4:8]))
	ri := c.lookup(corr)
	if ri == nil {
		s.hashWire(uint64(s.Now()), hashStr(h.name), uint64(f.idx), uint64(len(f.data)), 98)
		h.deliverBytes(f.data)
		return
	}
	if !f.fab {
		// a genuine response: it is the head of the order list
		if len(c.order) > 0 && c.order[0] == corr {
			c.order = c.order[1:]
		} else {
			for i, x := range c.order {
				if x == corr {
					c.order = append(c.order[:i], c.order[i+1:]...)
					break
				}
			}
		}
		defer s.flushFab(c, now)
	}
	if c.blackhole {
		s.Count("fault.blackholed_frames", 1)
		return
	}
	data := f.data
	rewritten := false
	if r := s.matchRules(c, ri.key, "kill_resp", "err_after", "throttle", "delay_resp", "delay_resp_move", "stall_resp"); r != nil && !f.fab {
		switch r.Kind {
		case "kill_resp":
			s.Count("fault.kill_resp", 1)
			s.Logf("FAULT kill_resp %s key=%d corr=%d", c.Name, ri.key, corr)
			s.hashWire(uint64(s.Now()), hashStr(h.name), uint64(f.idx), 5)
			c.kill()
			return
		case "err_after", "throttle":
			if resp := decodeResp(ri.key, ri.ver, data); resp != nil {
				thr := int32(0)
				code := r.Code
				if r.Kind == "throttle" {
					thr, code = int32(r.Arg), 0
				}
				if rewrite(resp, code, thr) {
					if r.Kind == "throttle" && r.DurMs > 0 {
						// ... and the throttled connection is reset while the
						// client honours the throttle
						s.AtDriver(s.Now()+time.Duration(r.DurMs)*time.Millisecond, func() {
							if !c.dead.Load() {
								s.Count("fault.throttled_conn_reset", 1)
								s.Logf("FAULT reset of throttled connection %s", c.Name)
								c.kill()
							}
						})
					}
					s.Count("fault."+r.Kind, 1)
					s.Logf("FAULT %s %s key=%d corr=%d code=%d", r.Kind, c.Name, ri.key, corr, r.Code)
					data = encodeResp(corr, resp)
					rewritten = true
				} else {
					r.fired = false
					r.seen--
				}
			}
		case "delay_resp", "delay_resp_move":
			s.Count("fault.delay", 1)
			s.Logf("FAULT %s %s key=%d corr=%d dur=%dms", r.Kind, c.Name, ri.key, corr, r.DurMs)
			if r.Kind == "delay_resp_move" && s.NBroker > 1 {
				// while the response is on its way, every partition of the
				// first topic this broker leads moves to the next broker
				from, to := c.Broker, (c.Broker+1)%int32(s.NBroker)
				np := int32(s.P.Knob("nparts", 1))
				s.Go(func() {
					for q := int32(0); q < np; q++ {
						if s.Cluster.LeaderFor(topicName(0), q) == from {
							if err := s.Cluster.MoveTopicPartition(topicName(0), q, to); err == nil {
								s.Count("env.move", 1)
								s.Probe("move_under_delayed_response")
								s.Logf("ENV move %s/%d %d->%d (response in flight)", topicName(0), q, from, to)
							}
						}
					}
				})
			}
			h.mu.Lock()
			f.at = now.Add(time.Duration(r.DurMs) * time.Millisecond)
			if h.lastAt.Before(f.at) {
				h.lastAt = f.at
			}
			for _, g := range h.q {
				if g.at.Before(f.at) {
					g.at = f.at
				}
			}
			h.q = append([]*frame{f}, h.q...)
			h.mu.Unlock()
			// undo the order pop: the frame is still to be delivered
			if !f.fab {
				c.order = append([]int32{corr}, c.order...)
			}
			return
		case "stall_resp":
			s.Count("fault.stall", 1)
			s.Logf("FAULT stall_resp %s dur=%dms", c.Name, r.DurMs)
			c.stalledUntil = now.Add(time.Duration(r.DurMs) * time.Millisecond)
			h.mu.Lock()
			h.q = append([]*frame{f}, h.q...)
			h.mu.Unlock()
			if !f.fab {
				c.order = append([]int32{corr}, c.order...)
			}
			return
		}
	}
	if s.Mutate != nil && !f.fab {
		out, kill := s.Mutate(c, ri, data)
		if out != nil || kill {
			c.setOutstanding(corr, nil)
			for _, b := range out {
				h.deliverBytes(b)
			}
			s.hashWire(uint64(s.Now()), hashStr(h.name), uint64(f.idx), 6)
			if kill {
				c.kill()
			}
			return
		}
	}
	c.setOutstanding(corr, nil)
	if len(s.OnResp) > 0 {
		wp := &WireResp{Seq: s.Seq(), T: s.Now(), Conn: c, Key: ri.key, Ver: ri.ver, Corr: corr, Fab: f.fab, Rewrit: rewritten, ReqSeq: ri.seq}
		wp.Resp = decodeResp(ri.key, ri.ver, data)
		for _, fn := range s.OnResp {
			fn(wp)
		}
	}
	s.Count("frames.resp", 1)
	s.hashWire(uint64(s.Now()), hashStr(h.name), uint64(f.idx), uint64(len(data)), 0)
	h.deliverBytes(data)
}

// ScheduleTimedFaults arms the time-triggered rules of the plan.
func (s *Sim) ScheduleTimedFaults() {
	for _, r := range s.rules {
		if r.Nth > 0 {
			continue
		}
		r := r
		s.AtDriver(time.Duration(r.AtMs)*time.Millisecond, func() { s.fireTimed(r) })
	}
}

func (s *Sim) matchConn(r *rule, c *Conn) bool {
	if c.dead.Load() {
		return false
	}
	if r.Client != "" && r.Client != c.Client {
		return false
	}
	if r.Broker >= 0 && r.Broker != c.Broker {
		return false
	}
	return true
}

func (s *Sim) fireTimed(r *rule) {
	if s.Healed() {
		return
	}
	now := time.Now()
	dur := time.Duration(r.DurMs) * time.Millisecond
	switch r.Kind {
	case "kill_any":
		n := 0
		for _, c := range s.conns() {
			if s.matchConn(r, c) {
				c.kill()
				n++
			}
		}
		if n > 0 {
			s.Count("fault.kill_any", int64(n))
		}
		s.Logf("FAULT kill_any client=%q broker=%d conns=%d", r.Client, r.Broker, n)
	case "stall":
		n := 0
		for _, c := range s.conns() {
			if s.matchConn(r, c) {
				c.stalledUntil = now.Add(dur)
				n++
			}
		}
		if n > 0 {
			s.Count("fault.stall", int64(n))
		}
		s.Logf("FAULT stall client=%q broker=%d dur=%v conns=%d", r.Client, r.Broker, dur, n)
	case "partition", "dial_fail":
		s.Net.mu.Lock()
		s.Net.dialBlock[fmt.Sprintf("%s|%d", r.Client, r.Broker)] = now.Add(dur)
		s.Net.mu.Unlock()
		n := 0
		if r.Kind == "partition" {
			for _, c := range s.conns() {
				if s.matchConn(r, c) {
					c.kill()
					n++
				}
			}
		}
		s.Count("fault."+r.Kind, 1)
		s.Logf("FAULT %s client=%q broker=%d dur=%v killed=%d", r.Kind, r.Client, r.Broker, dur, n)
	case "half_open":
		n := 0
		for _, c := range s.conns() {
			if s.matchConn(r, c) {
				c.blackhole = true
				n++
			}
		}
		if n > 0 {
			s.Count("fault.half_open", int64(n))
		}
		s.Logf("FAULT half_open client=%q broker=%d conns=%d", r.Client, r.Broker, n)
	case "slow_broker":
		n := 0
		for _, c := range s.conns() {
			if s.matchConn(r, c) {
				c.setExtra(r.Arg)
				n++
			}
		}
		if n > 0 {
			s.Count("fault.slow_broker", 1)
		}
		s.AtDriver(s.Now()+dur, func() {
			for _, c := range s.conns() {
				if s.matchConn(r, c) {
					c.setExtra(0)
				}
			}
		})
	}
	s.Net.poke()
}

// traceDigest is used by the self-test.
func traceDigest(parts ...string) string {
	h := fnv.New64a()
	for _, p := range parts {
		h.Write([]byte(p))
	}
	return fmt.Sprintf("%016x", h.Sum64())
}

func (s *Sim) clientWrote(c *Conn, frame []byte) {
	if len(s.OnWritten) == 0 {
		return
	}
	key, ver, corr, cid, body, ok := parseReqHeader(frame)
	if !ok {
		return
	}
	wr := &WireReq{T: s.Now(), Conn: c, Key: key, Ver: ver, Corr: corr, ClientID: cid, Raw: frame}
	if key == 0 { // only produce requests are decoded here (cost)
		wr.Req = decodeReq(key, ver, body)
	}
	for _, fn := range s.OnWritten {
		fn(wr)
	}
}

func (s *Sim) serverWrote(c *Conn, frame []byte) {
	if len(s.OnProcessed) == 0 || len(frame) < 8 {
		return
	}
	corr := int32(binary.BigEndian.Uint32(frame[4:8]))
	ri := c.lookup(corr)
	if ri == nil {
		return
	}
	wp := &WireResp{Seq: s.Seq(), T: s.Now(), Conn: c, Key: ri.key, Ver: ri.ver, Corr: corr, ReqSeq: ri.seq}
	wp.Resp = decodeResp(ri.key, ri.ver, frame)
	if s.wirelog && s.P.Knob("wirelog", 0) > 1 {
		s.Logf("WIRE processed %s corr=%d %s", c.Name, corr, summarize(s, wp.Resp))
	}
	for _, fn := range s.OnProcessed {
		fn(wp)
	}
}
