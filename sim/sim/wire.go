package sim

import (
	"encoding/binary"
	"time"

	"github.com/twmb/franz-go/pkg/kbin"
	"github.com/twmb/franz-go/pkg/kmsg"
)

// WireReq is a request as delivered to the broker (or intercepted).
type WireReq struct {
	Seq      uint64
	T        time.Duration
	Conn     *Conn
	Key, Ver int16
	Corr     int32
	ClientID string
	Req      kmsg.Request // decoded with the generated codec; nil if undecodable
	Raw      []byte       // whole frame
	NoProc   bool         // intercepted: the broker never saw it
}

// WireResp is a response as delivered to the client.
type WireResp struct {
	Seq      uint64
	T        time.Duration
	Conn     *Conn
	Key, Ver int16
	Corr     int32
	Resp     kmsg.Response
	Fab      bool // fabricated by the simulator (request was not processed)
	Rewrit   bool // genuine response rewritten after processing
	ReqSeq   uint64
}

// parseReqHeader decodes a request frame (with its 4-byte length prefix).
func parseReqHeader(frame []byte) (key, ver int16, corr int32, clientID string, body []byte, ok bool) {
	if len(frame) < 4+8 {
		return
	}
	r := kbin.Reader{Src: frame[4:]}
	key = r.Int16()
	ver = r.Int16()
	corr = r.Int32()
	cid := r.NullableString()
	if cid != nil {
		clientID = *cid
	}
	kreq := kmsg.RequestForKey(key)
	if kreq == nil {
		return
	}
	kreq.SetVersion(ver)
	if kreq.IsFlexible() {
		kmsg.SkipTags(&r)
	}
	if r.Complete() != nil {
		return
	}
	return key, ver, corr, clientID, r.Src, true
}

func decodeReq(key, ver int16, body []byte) kmsg.Request {
	kreq := kmsg.RequestForKey(key)
	if kreq == nil {
		return nil
	}
	kreq.SetVersion(ver)
	if err := kreq.ReadFrom(body); err != nil {
		return nil
	}
	return kreq
}

func respBody(key, ver int16, frame []byte) []byte {
	if len(frame) < 8 {
		return nil
	}
	b := frame[8:]
	kresp := kmsg.ResponseForKey(key)
	if kresp == nil {
		return nil
	}
	kresp.SetVersion(ver)
	if kresp.IsFlexible() && key != 18 {
		r := kbin.Reader{Src: b}
		kmsg.SkipTags(&r)
		if r.Complete() != nil {
			return nil
		}
		b = r.Src
	}
	return b
}

func decodeResp(key, ver int16, frame []byte) kmsg.Response {
	b := respBody(key, ver, frame)
	if b == nil {
		return nil
	}
	kresp := kmsg.ResponseForKey(key)
	kresp.SetVersion(ver)
	if err := kresp.ReadFrom(b); err != nil {
		return nil
	}
	return kresp
}

func encodeResp(corr int32, resp kmsg.Response) []byte {
	buf := []byte{0, 0, 0, 0, 0, 0, 0, 0}
	if resp.IsFlexible() && resp.Key() != 18 {
		buf = append(buf, 0)
	}
	buf = resp.AppendTo(buf)
	binary.BigEndian.PutUint32(buf[:4], uint32(len(buf)-4))
	binary.BigEndian.PutUint32(buf[4:8], uint32(corr))
	return buf
}

// setRespError sets code on every per-item (or the top-level) error field of
// a response. For responses built from a request (fabricate) the item lists
// are created from the request first. Returns false for an unsupported API.
func fabricate(req kmsg.Request, code int16) kmsg.Response {
	switch r := req.(type) {
	case *kmsg.ProduceRequest:
		if r.Acks == 0 {
			return nil
		}
		resp := r.ResponseKind().(*kmsg.ProduceResponse)
		for _, t := range r.Topics {
			rt := kmsg.NewProduceResponseTopic()
			rt.Topic, rt.TopicID = t.Topic, t.TopicID
			for _, p := range t.Partitions {
				rp := kmsg.NewProduceResponseTopicPartition()
				rp.Partition = p.Partition
				rp.ErrorCode = code
				rp.BaseOffset = -1
				rp.LogAppendTime = -1
				rp.LogStartOffset = -1
				rt.Partitions = append(rt.Partitions, rp)
			}
			resp.Topics = append(resp.Topics, rt)
		}
		return resp
	case *kmsg.FetchRequest:
		resp := r.ResponseKind().(*kmsg.FetchResponse)
		// top-level errors are what session errors use; partition errors otherwise
		switch code {
		case 70, 71: // FETCH_SESSION_ID_NOT_FOUND, INVALID_FETCH_SESSION_EPOCH
			resp.ErrorCode = code
			return resp
		}
		resp.SessionID = r.SessionID
		if r.SessionID != 0 || r.SessionEpoch > 0 {
			// cannot fabricate partition errors inside an incremental
			// session without knowing the session's partitions.
			resp.ErrorCode = 71
			resp.SessionID = 0
			return resp
		}
		resp.SessionID = 0
		for _, t := range r.Topics {
			rt := kmsg.NewFetchResponseTopic()
			rt.Topic, rt.TopicID = t.Topic, t.TopicID
			for _, p := range t.Partitions {
				rp := kmsg.NewFetchResponseTopicPartition()
				rp.Partition = p.Partition
				rp.ErrorCode = code
				rp.HighWatermark = -1
				rp.LastStableOffset = -1
				rp.LogStartOffset = -1
				rt.Partitions = append(rt.Partitions, rp)
			}
			resp.Topics = append(resp.Topics, rt)
		}
		return resp
	case *kmsg.ListOffsetsRequest:
		resp := r.ResponseKind().(*kmsg.ListOffsetsResponse)
		for _, t := range r.Topics {
			rt := kmsg.NewListOffsetsResponseTopic()
			rt.Topic = t.Topic
			for _, p := range t.Partitions {
				rp := kmsg.NewListOffsetsResponseTopicPartition()
				rp.Partition = p.Partition
				rp.ErrorCode = code
				rp.Offset = -1
				rp.Timestamp = -1
				rp.LeaderEpoch = -1
				rt.Partitions = append(rt.Partitions, rp)
			}
			resp.Topics = append(resp.Topics, rt)
		}
		return resp
	case *kmsg.OffsetCommitRequest:
		resp := r.ResponseKind().(*kmsg.OffsetCommitResponse)
		for _, t := range r.Topics {
			rt := kmsg.NewOffsetCommitResponseTopic()
			rt.Topic, rt.TopicID = t.Topic, t.TopicID
			for _, p := range t.Partitions {
				rp := kmsg.NewOffsetCommitResponseTopicPartition()
				rp.Partition = p.Partition
				rp.ErrorCode = code
				rt.Partitions = append(rt.Partitions, rp)
			}
			resp.Topics = append(resp.Topics, rt)
		}
		return resp
	case *kmsg.OffsetFetchRequest:
		resp := r.ResponseKind().(*kmsg.OffsetFetchResponse)
		if r.Version >= 8 {
			for _, g := range r.Groups {
				rg := kmsg.NewOffsetFetchResponseGroup()
				rg.Group = g.Group
				rg.ErrorCode = code
				resp.Groups = append(resp.Groups, rg)
			}
		} else {
			resp.ErrorCode = code
			if r.Version < 2 {
				return nil
			}
		}
		return resp
	case *kmsg.FindCoordinatorRequest:
		resp := r.ResponseKind().(*kmsg.FindCoordinatorResponse)
		if r.Version >= 4 {
			for _, k := range r.CoordinatorKeys {
				rc := kmsg.NewFindCoordinatorResponseCoordinator()
				rc.Key = k
				rc.ErrorCode = code
				rc.NodeID = -1
				resp.Coordinators = append(resp.Coordinators, rc)
			}
		} else {
			resp.ErrorCode = code
			resp.NodeID = -1
		}
		return resp
	case *kmsg.JoinGroupRequest:
		resp := r.ResponseKind().(*kmsg.JoinGroupResponse)
		resp.ErrorCode = code
		resp.Generation = -1
		resp.MemberID = r.MemberID
		return resp
	case *kmsg.SyncGroupRequest:
		resp := r.ResponseKind().(*kmsg.SyncGroupResponse)
		resp.ErrorCode = code
		return resp
	case *kmsg.HeartbeatRequest:
		resp := r.ResponseKind().(*kmsg.HeartbeatResponse)
		resp.ErrorCode = code
		return resp
	case *kmsg.ConsumerGroupHeartbeatRequest:
		resp := r.ResponseKind().(*kmsg.ConsumerGroupHeartbeatResponse)
		resp.ErrorCode = code
		return resp
	case *kmsg.InitProducerIDRequest:
		resp := r.ResponseKind().(*kmsg.InitProducerIDResponse)
		resp.ErrorCode = code
		resp.ProducerID = -1
		resp.ProducerEpoch = -1
		return resp
	case *kmsg.AddPartitionsToTxnRequest:
		if r.Version >= 4 {
			return nil
		}
		resp := r.ResponseKind().(*kmsg.AddPartitionsToTxnResponse)
		for _, t := range r.Topics {
			rt := kmsg.NewAddPartitionsToTxnResponseTopic()
			rt.Topic = t.Topic
			for _, p := range t.Partitions {
				rp := kmsg.NewAddPartitionsToTxnResponseTopicPartition()
				rp.Partition = p
				rp.ErrorCode = code
				rt.Partitions = append(rt.Partitions, rp)
			}
			resp.Topics = append(resp.Topics, rt)
		}
		return resp
	case *kmsg.AddOffsetsToTxnRequest:
		resp := r.ResponseKind().(*kmsg.AddOffsetsToTxnResponse)
		resp.ErrorCode = code
		return resp
	case *kmsg.TxnOffsetCommitRequest:
		resp := r.ResponseKind().(*kmsg.TxnOffsetCommitResponse)
		for _, t := range r.Topics {
			rt := kmsg.NewTxnOffsetCommitResponseTopic()
			rt.Topic = t.Topic
			for _, p := range t.Partitions {
				rp := kmsg.NewTxnOffsetCommitResponseTopicPartition()
				rp.Partition = p.Partition
				rp.ErrorCode = code
				rt.Partitions = append(rt.Partitions, rp)
			}
			resp.Topics = append(resp.Topics, rt)
		}
		return resp
	case *kmsg.EndTxnRequest:
		resp := r.ResponseKind().(*kmsg.EndTxnResponse)
		resp.ErrorCode = code
		resp.ProducerID = -1
		resp.ProducerEpoch = -1
		return resp
	case *kmsg.MetadataRequest:
		// a metadata response where every requested topic errors
		if r.Topics == nil {
			return nil
		}
		resp := r.ResponseKind().(*kmsg.MetadataResponse)
		resp.ControllerID = -1
		for _, t := range r.Topics {
			rt := kmsg.NewMetadataResponseTopic()
			rt.Topic, rt.TopicID = t.Topic, t.TopicID
			rt.ErrorCode = code
			resp.Topics = append(resp.Topics, rt)
		}
		return resp
	}
	return fabricateMore(req, code)
}

// rewrite changes a genuine response after the broker processed the request
// (e.g. a time-out after append). Returns false if nothing was changed.
func rewrite(resp kmsg.Response, code int16, throttleMs int32) bool {
	changed := false
	switch r := resp.(type) {
	case *kmsg.ProduceResponse:
		for i := range r.Topics {
			for j := range r.Topics[i].Partitions {
				p := &r.Topics[i].Partitions[j]
				if code != 0 && p.ErrorCode == 0 {
					p.ErrorCode = code
					p.BaseOffset = -1
					changed = true
				}
			}
		}
		if throttleMs > 0 {
			r.ThrottleMillis = throttleMs
			changed = true
		}
	case *kmsg.OffsetCommitResponse:
		for i := range r.Topics {
			for j := range r.Topics[i].Partitions {
				p := &r.Topics[i].Partitions[j]
				if code != 0 && p.ErrorCode == 0 {
					p.ErrorCode = code
					changed = true
				}
			}
		}
	case *kmsg.TxnOffsetCommitResponse:
		for i := range r.Topics {
			for j := range r.Topics[i].Partitions {
				p := &r.Topics[i].Partitions[j]
				if code != 0 && p.ErrorCode == 0 {
					p.ErrorCode = code
					changed = true
				}
			}
		}
	case *kmsg.EndTxnResponse:
		if code != 0 && r.ErrorCode == 0 {
			r.ErrorCode = code
			changed = true
		}
	case *kmsg.FetchResponse:
		if throttleMs > 0 {
			r.ThrottleMillis = throttleMs
			changed = true
		}
	case *kmsg.MetadataResponse:
		if throttleMs > 0 {
			r.ThrottleMillis = throttleMs
			changed = true
		}
		if code != 0 {
			// partitions in the middle of a leader election
			for i := range r.Topics {
				for j := range r.Topics[i].Partitions {
					r.Topics[i].Partitions[j].ErrorCode = code
					if code == 5 {
						r.Topics[i].Partitions[j].Leader = -1
					}
					changed = true
				}
			}
		}
	}
	return changed
}
