package sim

import (
	"io"
	iofs "io/fs"
	"os"
	"sort"
	"strings"
	"sync"
	"time"

	"github.com/twmb/franz-go/pkg/kfake"
)

// CrashFS is an in-memory file system behind kfake's injectable fs interface
// (verif-tagged option) that records every mutating operation with a global
// sequence number. From the recorded sequence an image of the disk after a
// crash at any operation can be built, under the model the property states:
// metadata operations (create, rename, remove, mkdir) are durable when they
// return; file data is durable up to the file's last Sync; anything written
// after that may be lost entirely or in part, per file.
type cfOp struct {
	kind  string // create, write, trunc, sync, rename, remove, removeall, mkdir
	name  string
	name2 string
	off   int64
	data  []byte
	size  int64
}

type cfFile struct{ data []byte }

type CrashFS struct {
	mu     sync.Mutex
	files  map[string]*cfFile
	dirs   map[string]bool
	ops    []cfOp
	record bool
}

func NewCrashFS() *CrashFS {
	return &CrashFS{files: map[string]*cfFile{}, dirs: map[string]bool{"/": true}, record: true}
}

// Seq is the number of mutating operations performed so far.
func (c *CrashFS) Seq() int { c.mu.Lock(); defer c.mu.Unlock(); return len(c.ops) }

func (c *CrashFS) Ops() []cfOp {
	c.mu.Lock()
	defer c.mu.Unlock()
	return append([]cfOp(nil), c.ops...)
}

func (c *CrashFS) log(op cfOp) {
	if c.record {
		c.ops = append(c.ops, op)
	}
}

type cfHandle struct {
	fs   *CrashFS
	name string
	f    *cfFile
	pos  int64
	flag int
}

var _ kfake.VerifFS = (*CrashFS)(nil)

func (c *CrashFS) OpenFile(name string, flag int, _ os.FileMode) (kfake.VerifFile, error) {
	c.mu.Lock()
	defer c.mu.Unlock()
	f, ok := c.files[name]
	if !ok {
		if flag&os.O_CREATE == 0 {
			return nil, &os.PathError{Op: "open", Path: name, Err: os.ErrNotExist}
		}
		f = &cfFile{}
		c.files[name] = f
		c.log(cfOp{kind: "create", name: name})
	}
	if flag&os.O_TRUNC != 0 && len(f.data) > 0 {
		f.data = nil
		c.log(cfOp{kind: "trunc", name: name, size: 0})
	}
	h := &cfHandle{fs: c, name: name, f: f, flag: flag}
	if flag&os.O_APPEND != 0 {
		h.pos = int64(len(f.data))
	}
	return h, nil
}

// current name of a file object (it may have been renamed while open)
func (c *CrashFS) nameOf(f *cfFile, hint string) string {
	if c.files[hint] == f {
		return hint
	}
	for n, g := range c.files {
		if g == f {
			return n
		}
	}
	return ""
}

func (h *cfHandle) Write(p []byte) (int, error) {
	c := h.fs
	c.mu.Lock()
	defer c.mu.Unlock()
	if h.flag&os.O_APPEND != 0 {
		h.pos = int64(len(h.f.data))
	}
	end := h.pos + int64(len(p))
	if int64(len(h.f.data)) < end {
		h.f.data = append(h.f.data, make([]byte, end-int64(len(h.f.data)))...)
	}
	copy(h.f.data[h.pos:], p)
	if n := c.nameOf(h.f, h.name); n != "" {
		c.log(cfOp{kind: "write", name: n, off: h.pos, data: append([]byte(nil), p...)})
	}
	h.pos = end
	return len(p), nil
}

func (h *cfHandle) Read(p []byte) (int, error) {
	c := h.fs
	c.mu.Lock()
	defer c.mu.Unlock()
	if h.pos >= int64(len(h.f.data)) {
		return 0, io.EOF
	}
	n := copy(p, h.f.data[h.pos:])
	h.pos += int64(n)
	return n, nil
}

func (h *cfHandle) Close() error { return nil }

func (h *cfHandle) Seek(off int64, whence int) (int64, error) {
	c := h.fs
	c.mu.Lock()
	defer c.mu.Unlock()
	switch whence {
	case io.SeekStart:
		h.pos = off
	case io.SeekCurrent:
		h.pos += off
	case io.SeekEnd:
		h.pos = int64(len(h.f.data)) + off
	}
	if h.pos < 0 {
		h.pos = 0
	}
	return h.pos, nil
}

func (h *cfHandle) Truncate(size int64) error {
	c := h.fs
	c.mu.Lock()
	defer c.mu.Unlock()
	if size < int64(len(h.f.data)) {
		h.f.data = h.f.data[:size]
	} else {
		h.f.data = append(h.f.data, make([]byte, size-int64(len(h.f.data)))...)
	}
	if n := c.nameOf(h.f, h.name); n != "" {
		c.log(cfOp{kind: "trunc", name: n, size: size})
	}
	return nil
}

func (h *cfHandle) Sync() error {
	c := h.fs
	c.mu.Lock()
	defer c.mu.Unlock()
	if n := c.nameOf(h.f, h.name); n != "" {
		c.log(cfOp{kind: "sync", name: n})
	}
	return nil
}

func (c *CrashFS) Rename(oldpath, newpath string) error {
	c.mu.Lock()
	defer c.mu.Unlock()
	f, ok := c.files[oldpath]
	if !ok {
		return &os.PathError{Op: "rename", Path: oldpath, Err: os.ErrNotExist}
	}
	c.files[newpath] = f
	delete(c.files, oldpath)
	c.log(cfOp{kind: "rename", name: oldpath, name2: newpath})
	return nil
}

func (c *CrashFS) Remove(name string) error {
	c.mu.Lock()
	defer c.mu.Unlock()
	if _, ok := c.files[name]; ok {
		delete(c.files, name)
		c.log(cfOp{kind: "remove", name: name})
		return nil
	}
	if c.dirs[name] {
		delete(c.dirs, name)
		c.log(cfOp{kind: "remove", name: name})
		return nil
	}
	return &os.PathError{Op: "remove", Path: name, Err: os.ErrNotExist}
}

func (c *CrashFS) RemoveAll(path string) error {
	c.mu.Lock()
	defer c.mu.Unlock()
	pfx := strings.TrimSuffix(path, "/") + "/"
	for n := range c.files {
		if n == path || strings.HasPrefix(n, pfx) {
			delete(c.files, n)
		}
	}
	for n := range c.dirs {
		if n == path || strings.HasPrefix(n, pfx) {
			delete(c.dirs, n)
		}
	}
	c.log(cfOp{kind: "removeall", name: path})
	return nil
}

func (c *CrashFS) MkdirAll(path string, _ os.FileMode) error {
	c.mu.Lock()
	defer c.mu.Unlock()
	created := false
	p := path
	for p != "" && p != "/" && p != "." {
		if !c.dirs[p] {
			c.dirs[p] = true
			created = true
		}
		i := strings.LastIndexByte(p, '/')
		if i <= 0 {
			break
		}
		p = p[:i]
	}
	if created {
		c.log(cfOp{kind: "mkdir", name: path})
	}
	return nil
}

type cfInfo struct {
	name string
	size int64
	dir  bool
}

func (i cfInfo) Name() string { return i.name }
func (i cfInfo) Size() int64  { return i.size }
func (i cfInfo) Mode() iofs.FileMode {
	if i.dir {
		return iofs.ModeDir | 0o755
	}
	return 0o644
}
func (i cfInfo) ModTime() time.Time           { return time.Time{} }
func (i cfInfo) IsDir() bool                  { return i.dir }
func (i cfInfo) Sys() any                     { return nil }
func (i cfInfo) Type() iofs.FileMode          { return i.Mode().Type() }
func (i cfInfo) Info() (iofs.FileInfo, error) { return i, nil }

func (c *CrashFS) ReadDir(name string) ([]os.DirEntry, error) {
	c.mu.Lock()
	defer c.mu.Unlock()
	if !c.dirs[name] && name != "/" {
		return nil, &os.PathError{Op: "readdir", Path: name, Err: os.ErrNotExist}
	}
	pfx := strings.TrimSuffix(name, "/") + "/"
	seen := map[string]cfInfo{}
	for n, f := range c.files {
		if strings.HasPrefix(n, pfx) && !strings.Contains(n[len(pfx):], "/") {
			seen[n[len(pfx):]] = cfInfo{name: n[len(pfx):], size: int64(len(f.data))}
		}
	}
	for n := range c.dirs {
		if strings.HasPrefix(n, pfx) && n != name && !strings.Contains(n[len(pfx):], "/") {
			seen[n[len(pfx):]] = cfInfo{name: n[len(pfx):], dir: true}
		}
	}
	var names []string
	for n := range seen {
		names = append(names, n)
	}
	sort.Strings(names)
	var out []os.DirEntry
	for _, n := range names {
		out = append(out, seen[n])
	}
	return out, nil
}

func (c *CrashFS) ReadFile(name string) ([]byte, error) {
	c.mu.Lock()
	defer c.mu.Unlock()
	f, ok := c.files[name]
	if !ok {
		return nil, &os.PathError{Op: "open", Path: name, Err: os.ErrNotExist}
	}
	return append([]byte(nil), f.data...), nil
}

func (c *CrashFS) Stat(name string) (os.FileInfo, error) {
	c.mu.Lock()
	defer c.mu.Unlock()
	if f, ok := c.files[name]; ok {
		return cfInfo{name: name[strings.LastIndexByte(name, '/')+1:], size: int64(len(f.data))}, nil
	}
	if c.dirs[name] {
		return cfInfo{name: name[strings.LastIndexByte(name, '/')+1:], dir: true}, nil
	}
	return nil, &os.PathError{Op: "stat", Path: name, Err: os.ErrNotExist}
}

// ---- crash images ----

type cfReplayFile struct {
	cur      []byte
	durable  []byte
	unsynced []cfOp // writes and truncations since the last sync
}

func applyData(cur []byte, op cfOp, nbytes int) []byte {
	switch op.kind {
	case "write":
		d := op.data
		if nbytes >= 0 && nbytes < len(d) {
			d = d[:nbytes]
		}
		end := op.off + int64(len(d))
		if int64(len(cur)) < end {
			cur = append(cur, make([]byte, end-int64(len(cur)))...)
		}
		copy(cur[op.off:], d)
	case "trunc":
		if op.size < int64(len(cur)) {
			cur = cur[:op.size]
		} else {
			cur = append(cur, make([]byte, op.size-int64(len(cur)))...)
		}
	}
	return cur
}

// Loss policies of a crash image.
const (
	LossNone    = 0 // everything written survives
	LossAll     = 1 // every file falls back to its last synced contents
	LossPartial = 2 // per file a random prefix of its unsynced operations survives, the last surviving write possibly torn
)

// CrashImage builds the file system as it may be found after a crash right
// after operation upto-1 (operations [0, upto) were issued). If torn >= 0 and
// operation upto is a write, its first torn bytes are applied as well (the
// crash hit in the middle of that write).
func CrashImage(ops []cfOp, upto int, policy int, torn int, pick func(n int) int) *CrashFS {
	files := map[string]*cfReplayFile{}
	dirs := map[string]bool{"/": true}
	apply := func(op cfOp, nbytes int) {
		switch op.kind {
		case "create":
			if files[op.name] == nil {
				files[op.name] = &cfReplayFile{}
			}
		case "write", "trunc":
			f := files[op.name]
			if f == nil {
				return
			}
			f.cur = applyData(f.cur, op, nbytes)
			o := op
			if nbytes >= 0 && op.kind == "write" && nbytes < len(op.data) {
				o.data = op.data[:nbytes]
			}
			f.unsynced = append(f.unsynced, o)
		case "sync":
			if f := files[op.name]; f != nil {
				f.durable = append([]byte(nil), f.cur...)
				f.unsynced = nil
			}
		case "rename":
			if f := files[op.name]; f != nil {
				files[op.name2] = f
				delete(files, op.name)
			}
		case "remove":
			delete(files, op.name)
			delete(dirs, op.name)
		case "removeall":
			pfx := strings.TrimSuffix(op.name, "/") + "/"
			for n := range files {
				if n == op.name || strings.HasPrefix(n, pfx) {
					delete(files, n)
				}
			}
			for n := range dirs {
				if n == op.name || strings.HasPrefix(n, pfx) {
					delete(dirs, n)
				}
			}
		case "mkdir":
			p := op.name
			for p != "" && p != "/" && p != "." {
				dirs[p] = true
				i := strings.LastIndexByte(p, '/')
				if i <= 0 {
					break
				}
				p = p[:i]
			}
		}
	}
	for i := 0; i < upto && i < len(ops); i++ {
		apply(ops[i], -1)
	}
	if torn >= 0 && upto < len(ops) && ops[upto].kind == "write" {
		apply(ops[upto], torn)
	}
	img := &CrashFS{files: map[string]*cfFile{}, dirs: dirs, record: false}
	var names []string
	for n := range files {
		names = append(names, n)
	}
	sort.Strings(names)
	for _, n := range names {
		f := files[n]
		var data []byte
		switch policy {
		case LossNone:
			data = f.cur
		case LossAll:
			data = f.durable
		default:
			data = append([]byte(nil), f.durable...)
			if k := len(f.unsynced); k > 0 {
				keep := pick(k + 1)
				for j := 0; j < keep; j++ {
					nb := -1
					if j == keep-1 && f.unsynced[j].kind == "write" && pick(2) == 0 {
						nb = pick(len(f.unsynced[j].data) + 1)
					}
					data = applyData(data, f.unsynced[j], nb)
				}
			}
		}
		img.files[n] = &cfFile{data: append([]byte(nil), data...)}
	}
	return img
}
