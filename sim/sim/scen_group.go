package sim

import (
	"context"
	"fmt"
	"sort"
	"strings"
	"sync"
	"time"

	"github.com/twmb/franz-go/pkg/kfake"
	"github.com/twmb/franz-go/pkg/kgo"
	"github.com/twmb/franz-go/pkg/kmsg"

	"verifsim/plan"
)

func init() { Scenarios["group"] = scenGroup }

type ownEvent struct {
	seq    uint64
	member string
	kind   string // assign-enter, revoke-enter, revoke-exit, lost-enter, lost-exit, closed
	parts  []tpKey
	at     time.Duration
}

type pollRec struct {
	start, ret uint64
	recs       []*crec
	allowSeq   uint64 // AllowRebalance call after this poll (block mode)
}

// epochEv: a KIP-848 member was handed another member epoch.
type epochEv struct {
	client string
	seq    uint64
}

type commitCall struct {
	idx       int
	kind      string
	offsets   map[tpKey]int64
	invokeSeq uint64
	doneSeq   uint64
	err       error
	done      bool
}

type gmember struct {
	closeSeq uint64 // event at which Close/LeaveGroup was invoked
	name     string // client name, e.g. m0.1 (slot 0, incarnation 1)
	slot     int
	cl       *kgo.Client
	stop     chan struct{}
	done     chan struct{}
	polls    []*pollRec
	closed   bool
	fenced   bool
}

type groupState struct {
	s  *Sim
	mu sync.Mutex

	evs         []ownEvent
	members     map[string]*gmember
	order       []string
	commits     map[string][]*commitCall // client -> calls
	wireCmt     []wireCommit
	topics      []string
	lastClaim   map[string][]byte // client -> its last cooperative-sticky join metadata that claimed partitions
	joinFenced  map[string]bool   // client was told UNKNOWN_MEMBER_ID by JoinGroup
	lastEpoch   map[string]int32
	epochEvs    []epochEv
	subs        map[string]map[string]bool // member -> topics it subscribes to (all of gs.topics unless the plan splits subscriptions; a purge removes one)
	partsOf     map[string]int32
	nparts      int32
	mode        int64
	block       bool
	defaults    bool // default revoke handling and autocommit (C08)
	fencedAt    string
	syncGens    map[int32]bool
	joinInfo    map[string]*joinSnapshot // leader client -> last join response
	stableSeq   uint64
	genAtStable int32
	maxGen      int32
}

type wireCommit struct {
	seq     uint64
	client  string
	offsets map[tpKey]int64
	noproc  bool
}

type joinSnapshot struct {
	gen     int32
	members map[string]*kmsg.ConsumerMemberMetadata
}

func (gs *groupState) ev(member, kind string, m map[string][]int32) {
	var parts []tpKey
	for t, ps := range m {
		for _, p := range ps {
			parts = append(parts, tpKey{t, p})
		}
	}
	sort.Slice(parts, func(i, j int) bool {
		if parts[i].t != parts[j].t {
			return parts[i].t < parts[j].t
		}
		return parts[i].p < parts[j].p
	})
	gs.mu.Lock()
	gs.evs = append(gs.evs, ownEvent{seq: gs.s.Seq(), member: member, kind: kind, parts: parts, at: gs.s.Now()})
	gs.mu.Unlock()
	gs.s.Logf("OWN %s %s %v (event %d)", member, kind, parts, gs.s.Seq())
}

func balancerOpt(mode int64) kgo.Opt {
	switch mode {
	case 0:
		return kgo.Balancers(kgo.RangeBalancer())
	case 3:
		return kgo.Balancers(kgo.StickyBalancer())
	case 4:
		return kgo.Balancers(kgo.RoundRobinBalancer())
	}
	return kgo.Balancers(kgo.CooperativeStickyBalancer())
}

// subscription: with knob sub_split every slot but the first leaves out the
// first topic, so that a topic one member purges can still be subscribed to
// by another.
func (gs *groupState) subscription(name string, slot int) []string {
	ts := gs.topics
	if gs.s.P.Knob("sub_split", 0) != 0 && slot >= 1 && len(ts) > 1 {
		ts = ts[1:]
	}
	m := map[string]bool{}
	for _, t := range ts {
		m[t] = true
	}
	gs.mu.Lock()
	if gs.subs == nil {
		gs.subs = map[string]map[string]bool{}
	}
	gs.subs[name] = m
	gs.mu.Unlock()
	return append([]string(nil), ts...)
}

func (gs *groupState) subscribers(t string, live []string) []string {
	gs.mu.Lock()
	defer gs.mu.Unlock()
	var out []string
	for _, n := range live {
		if gs.subs[n][t] {
			out = append(out, n)
		}
	}
	return out
}

func (gs *groupState) newMember(slot, inc int) *gmember {
	s := gs.s
	p := s.P
	name := fmt.Sprintf("m%d.%d", slot, inc)
	m := &gmember{name: name, slot: slot, stop: make(chan struct{}), done: make(chan struct{})}
	ctx := context.Background()
	if gs.mode == 2 {
		ctx = context.WithValue(ctx, "opt_in_kafka_next_gen_balancer_beta", true) //nolint
	}
	opts := []kgo.Opt{
		kgo.WithContext(ctx),
		kgo.ConsumerGroup("g"),
		kgo.ConsumeTopics(gs.subscription(name, slot)...),
		kgo.ConsumeResetOffset(kgo.NewOffset().AtStart()),
		kgo.FetchMaxWait(time.Duration(p.Knob("fetch_max_wait_ms", 500)) * time.Millisecond),
		kgo.SessionTimeout(time.Duration(p.Knob("session_ms", 30000)) * time.Millisecond),
		kgo.RebalanceTimeout(time.Duration(p.Knob("rebalance_ms", 40000)) * time.Millisecond),
		kgo.HeartbeatInterval(time.Duration(p.Knob("heartbeat_ms", 1000)) * time.Millisecond),
		balancerOpt(gs.mode),
	}
	if v := p.Knob("autocommit_ms", 0); v > 0 {
		opts = append(opts, kgo.AutoCommitInterval(time.Duration(v)*time.Millisecond))
	}
	if p.Knob("disable_autocommit", 0) != 0 {
		opts = append(opts, kgo.DisableAutoCommit())
	}
	if gs.block {
		opts = append(opts, kgo.BlockRebalanceOnPoll())
	}
	if !gs.defaults {
		opts = append(opts,
			kgo.OnPartitionsAssigned(func(_ context.Context, _ *kgo.Client, mp map[string][]int32) { gs.ev(name, "assign-enter", mp) }),
			kgo.OnPartitionsRevoked(func(c context.Context, cl *kgo.Client, mp map[string][]int32) {
				entry := copyTP(mp)
				gs.ev(name, "revoke-enter", entry)
				if d := p.Knob("revoke_sleep_ms", 0); d > 0 && len(entry) > 0 {
					time.Sleep(time.Duration(d) * time.Millisecond) // a slow application callback
				}
				if p.Knob("disable_autocommit", 0) == 0 && p.Knob("commit_in_revoke", 1) != 0 {
					cctx, cancel := context.WithTimeout(c, 20*time.Second)
					cl.CommitUncommittedOffsets(cctx)
					cancel()
				}
				gs.ev(name, "revoke-exit", entry)
			}),
			kgo.OnPartitionsLost(func(_ context.Context, _ *kgo.Client, mp map[string][]int32) {
				// a lost callback releases ownership just like a revoke
				// (the property names both); only broker-side fencing,
				// seen on the wire, puts a run out of scope
				gs.ev(name, "lost-enter", mp)
				gs.s.Probe("partitions_lost_callback")
				gs.ev(name, "lost-exit", mp)
			}),
		)
	}
	m.cl = s.Client(name, opts...)
	gs.mu.Lock()
	gs.members[name] = m
	gs.order = append(gs.order, name)
	gs.mu.Unlock()
	return m
}

func copyTP(m map[string][]int32) map[string][]int32 {
	o := map[string][]int32{}
	for t, ps := range m {
		o[t] = append([]int32(nil), ps...)
	}
	return o
}

// pollLoop is the member's application goroutine. script ops (C09) are
// executed first, interleaved with polls, then it keeps polling.
func (gs *groupState) pollLoop(m *gmember, script []plan.Op, pattern []plan.Op) {
	defer close(m.done)
	s := gs.s
	cl := m.cl
	var lastRecs []*kgo.Record
	ncommit := 0
	poll := func(op plan.Op) bool {
		d := op.D
		if d <= 0 {
			d = 1000
		}
		ctx, cancel := context.WithTimeout(context.Background(), time.Duration(d)*time.Millisecond)
		pr := &pollRec{start: s.Seq()}
		gs.mu.Lock()
		m.polls = append(m.polls, pr)
		gs.mu.Unlock()
		var fs kgo.Fetches
		if op.A > 0 {
			fs = cl.PollRecords(ctx, int(op.A))
		} else {
			fs = cl.PollFetches(ctx)
		}
		cancel()
		gs.mu.Lock()
		pr.ret = s.Seq()
		gs.mu.Unlock()
		if n := fs.NumRecords(); n > 0 {
			s.Logf("POLL %s started at event %d returned %d records at event %d", m.name, pr.start, n, pr.ret)
		}
		if fs.IsClientClosed() {
			if gs.block {
				// contract: every poll that returned a non-empty Fetches
				// (an error fetch counts) is followed by AllowRebalance
				cl.AllowRebalance()
			}
			return false
		}
		lastRecs = lastRecs[:0]
		fs.EachRecord(func(r *kgo.Record) {
			c := &crec{consumer: m.name, topic: r.Topic, part: r.Partition, off: r.Offset, val: string(r.Value), pollStart: pr.start, retSeq: pr.ret, at: s.Now()}
			gs.mu.Lock()
			pr.recs = append(pr.recs, c)
			gs.mu.Unlock()
			lastRecs = append(lastRecs, r)
		})
		if gs.block {
			if n := s.P.Knob("process_ms", 0); n > 0 && len(lastRecs) > 0 {
				time.Sleep(time.Duration(n) * time.Millisecond)
			}
			gs.mu.Lock()
			pr.allowSeq = s.Seq()
			gs.mu.Unlock()
			cl.AllowRebalance()
		}
		return true
	}
	commit := func(op plan.Op) {
		// positions of partitions this member has polled records from
		pos := map[tpKey]int64{}
		gs.mu.Lock()
		for _, pr := range m.polls {
			for _, r := range pr.recs {
				pos[tpKey{r.topic, r.part}] = r.off + 1
			}
		}
		gs.mu.Unlock()
		if len(pos) == 0 {
			return
		}
		cc := &commitCall{idx: ncommit, kind: op.Kind, offsets: map[tpKey]int64{}}
		ncommit++
		onDone := func(_ *kgo.Client, _ *kmsg.OffsetCommitRequest, resp *kmsg.OffsetCommitResponse, err error) {
			if err == nil && resp != nil {
				for _, t := range resp.Topics {
					for _, p := range t.Partitions {
						if p.ErrorCode != 0 && err == nil {
							err = fmt.Errorf("partition error code %d", p.ErrorCode)
						}
					}
				}
			}
			gs.mu.Lock()
			cc.err = err
			cc.done = true
			cc.doneSeq = s.Seq()
			gs.mu.Unlock()
			s.Logf("COMMIT-DONE %s #%d %s err=%v", m.name, cc.idx, cc.kind, err)
		}
		// the context of an asynchronous commit must outlive the call: it is
		// released in the completion callback (or by its own, planned
		// time-out when the plan asks for a commit that gives up early)
		tmo := 60 * time.Second
		if op.D > 0 {
			tmo = time.Duration(op.D) * time.Millisecond
			s.Probe("commit_with_short_context")
		}
		ctx, cancel := context.WithTimeout(context.Background(), tmo)
		if op.Kind == "commit_async" {
			inner := onDone
			onDone = func(c *kgo.Client, rq *kmsg.OffsetCommitRequest, rs *kmsg.OffsetCommitResponse, err error) {
				inner(c, rq, rs, err)
				cancel()
			}
		} else {
			defer cancel()
		}
		// what CommitRecords and CommitUncommittedOffsets put into their
		// request is the client's decision (a partition whose dirty offset
		// equals its committed offset at the time of the call is left out):
		// the call's offsets are read off the request it is about to issue
		capture := func(ctx context.Context) context.Context {
			return kgo.PreCommitFnContext(ctx, func(req *kmsg.OffsetCommitRequest) error {
				gs.mu.Lock()
				for _, t := range req.Topics {
					for _, p := range t.Partitions {
						cc.offsets[tpKey{t.Topic, p.Partition}] = p.Offset
					}
				}
				gs.mu.Unlock()
				return nil
			})
		}
		switch op.Kind {
		case "commit_async", "commit_sync":
			unc := map[string]map[int32]kgo.EpochOffset{}
			for k, o := range pos {
				if unc[k.t] == nil {
					unc[k.t] = map[int32]kgo.EpochOffset{}
				}
				// op.A: the application deliberately commits an earlier
				// offset (a rewind is a legal commit)
				if o -= op.A; o < 0 {
					o = 0
				}
				unc[k.t][k.p] = kgo.EpochOffset{Epoch: -1, Offset: o}
				cc.offsets[k] = o
			}
			gs.mu.Lock()
			gs.commits[m.name] = append(gs.commits[m.name], cc)
			cc.invokeSeq = s.Seq()
			gs.mu.Unlock()
			if op.Kind == "commit_sync" {
				cl.CommitOffsetsSync(ctx, unc, onDone)
			} else {
				cl.CommitOffsets(ctx, unc, onDone)
			}
		case "commit_records":
			if len(lastRecs) == 0 {
				return
			}
			ctx = capture(ctx)
			gs.mu.Lock()
			gs.commits[m.name] = append(gs.commits[m.name], cc)
			cc.invokeSeq = s.Seq()
			gs.mu.Unlock()
			err := cl.CommitRecords(ctx, lastRecs...)
			gs.mu.Lock()
			cc.err, cc.done, cc.doneSeq = err, true, s.Seq()
			gs.mu.Unlock()
		case "commit_uncommitted":
			ctx = capture(ctx)
			gs.mu.Lock()
			gs.commits[m.name] = append(gs.commits[m.name], cc)
			cc.invokeSeq = s.Seq()
			gs.mu.Unlock()
			err := cl.CommitUncommittedOffsets(ctx)
			gs.mu.Lock()
			cc.err, cc.done, cc.doneSeq = err, true, s.Seq()
			gs.mu.Unlock()
		}
		s.Probe(op.Kind)
		s.Logf("COMMIT %s #%d %s rewind=%d ctx=%dms t0/0=%d done=%v", m.name, cc.idx, cc.kind, op.A, op.D, cc.offsets[tpKey{"t0", 0}], cc.done)
	}
	for _, op := range script {
		select {
		case <-m.stop:
			return
		default:
		}
		switch op.Kind {
		case "poll":
			if !poll(op) {
				return
			}
		case "sleep":
			time.Sleep(time.Duration(op.A) * time.Millisecond)
		default:
			commit(op)
		}
	}
	i := 0
	for {
		select {
		case <-m.stop:
			return
		default:
		}
		op := plan.Op{Kind: "poll", D: 1000}
		if len(pattern) > 0 {
			op = pattern[i%len(pattern)]
			i++
		}
		if op.Kind == "sleep" {
			time.Sleep(time.Duration(op.A) * time.Millisecond)
			continue
		}
		switch op.Kind {
		case "pause_p":
			m.cl.PauseFetchPartitions(map[string][]int32{op.S: {int32(op.B)}})
			s.Probe("pause")
			continue
		case "resume_p":
			m.cl.ResumeFetchPartitions(map[string][]int32{op.S: {int32(op.B)}})
			continue
		case "pause_t":
			m.cl.PauseFetchTopics(op.S)
			s.Probe("pause")
			continue
		case "resume_t":
			m.cl.ResumeFetchTopics(op.S)
			continue
		}
		if !poll(op) {
			return
		}
	}
}

func (gs *groupState) closeMember(m *gmember, how string) bool {
	s := gs.s
	gs.mu.Lock()
	m.closeSeq = s.Seq()
	gs.mu.Unlock()
	close(m.stop)
	t0 := s.Now()
	done := make(chan struct{})
	go func() {
		if how == "leave" {
			m.cl.LeaveGroup()
		}
		s.CloseCl(m.cl, gs.block)
		close(done)
	}()
	select {
	case <-done:
	case <-time.After(s.CloseBoundAtLeast(m.cl, 5*time.Minute)):
		s.Violf("C13/hang/close-group-member", "Close (%s) of group member %s did not return within %v\n%s", how, m.name, s.CloseBoundAtLeast(m.cl, 5*time.Minute), goroutineDump("kgo"))
		return false
	}
	s.Forget(m.name)
	s.Max("close_ms_max", int64((s.Now()-t0)/time.Millisecond))
	select {
	case <-m.done:
	case <-time.After(2 * time.Minute):
		s.Violf("C13/hang/poll-after-close", "poll loop of %s did not end within 2m of Close", m.name)
		return false
	}
	gs.mu.Lock()
	m.closed = true
	gs.mu.Unlock()
	gs.ev(m.name, "closed", nil)
	return true
}

func scenGroup(s *Sim) {
	p := s.P
	nb := int(p.Knob("nbroker", 3))
	nparts := int32(p.Knob("nparts", 4))
	ntopics := int(p.Knob("ntopics", 1))
	var topics []string
	var kopts []kfake.Opt
	partsOf := map[string]int32{}
	for i := 0; i < ntopics; i++ {
		t := topicName(int64(i))
		topics = append(topics, t)
		partsOf[t] = int32(p.Knob(fmt.Sprintf("nparts_t%d", i), int64(nparts)))
		kopts = append(kopts, kfake.SeedTopics(partsOf[t], t))
	}
	if v := p.Knob("min_session_ms", 0); v > 0 {
		kopts = append(kopts, kfake.GroupMinSessionTimeout(time.Duration(v)*time.Millisecond))
	}
	s.StartCluster(nb, kopts...)
	gs := &groupState{s: s, members: map[string]*gmember{}, commits: map[string][]*commitCall{}, topics: topics, nparts: nparts, partsOf: partsOf,
		mode: p.Knob("mode", 1), block: p.Knob("block_rebalance", 0) != 0, defaults: p.Knob("default_callbacks", 0) != 0, syncGens: map[int32]bool{}, joinInfo: map[string]*joinSnapshot{}}
	if p.Knob("stale_family", 0) != 0 {
		s.RewriteReq = gs.staleClaims
	}
	s.OnReq = append(s.OnReq, gs.onReq)
	s.OnResp = append(s.OnResp, gs.onResp)

	for _, ev := range p.Events {
		ev := ev
		s.At(time.Duration(ev.AtMs)*time.Millisecond, func() {
			switch ev.Kind {
			case "move", "shuffle":
				produceEnvEvent(s, nil, ev, nb, nparts)
			case "rehash":
				s.Cluster.RehashCoordinators()
				s.Count("env.rehash_coordinators", 1)
				s.Logf("ENV rehash coordinators")
			}
		})
	}
	s.ScheduleTimedFaults()

	// producer
	var prodWG sync.WaitGroup
	var churn *plan.Actor
	scripts := map[int][]plan.Op{}
	patterns := map[int][]plan.Op{}
	for ai, a := range p.Actors {
		ai, a := ai, a
		switch {
		case strings.HasPrefix(a.Name, "prod"):
			cl := s.Client(a.Client, kgo.RecordPartitioner(kgo.ManualPartitioner()), kgo.ProducerBatchMaxBytes(int32(p.Knob("batch_max_bytes", 1000012))))
			cst := &consState{s: s, txnOf: map[string]*txnInfo{}, produced: map[string]bool{}}
			prodWG.Add(1)
			go func() { defer prodWG.Done(); cst.produceActor(cl, a.Client, ai, a, false) }()
		case a.Name == "churn":
			churn = &p.Actors[ai]
		case strings.HasPrefix(a.Name, "script"):
			var slot int
			fmt.Sscanf(a.Name, "script%d", &slot)
			scripts[slot] = a.Ops
		case strings.HasPrefix(a.Name, "pattern"):
			var slot int
			fmt.Sscanf(a.Name, "pattern%d", &slot)
			patterns[slot] = a.Ops
		}
	}
	// membership churn (graceful only)
	live := map[int]*gmember{}
	inc := map[int]int{}
	join := func(slot int) {
		if live[slot] != nil {
			return
		}
		m := gs.newMember(slot, inc[slot])
		inc[slot]++
		live[slot] = m
		var script []plan.Op
		if inc[slot] == 1 {
			script = scripts[slot]
		}
		go gs.pollLoop(m, script, patterns[slot])
		s.Probe("member_join")
	}
	ok := true
	if churn != nil {
		for _, op := range churn.Ops {
			switch op.Kind {
			case "sleep":
				time.Sleep(time.Duration(op.A) * time.Millisecond)
			case "join":
				join(int(op.A))
			case "close", "leave":
				if m := live[int(op.A)]; m != nil {
					delete(live, int(op.A))
					if !gs.closeMember(m, op.Kind) {
						ok = false
					}
					s.Probe("member_" + op.Kind)
				}
			case "purge":
				// the member stops consuming one topic (the others keep it)
				if m := live[int(op.A)]; m != nil && len(gs.topics) > 1 {
					t := gs.topics[len(gs.topics)-1]
					m.cl.PurgeTopicsFromConsuming(t)
					gs.mu.Lock()
					delete(gs.subs[m.name], t)
					gs.mu.Unlock()
					s.Probe("member_purged_topic")
					s.Logf("CHURN %s purges %s", m.name, t)
				}
			case "restart":
				if m := live[int(op.A)]; m != nil {
					delete(live, int(op.A))
					if !gs.closeMember(m, "close") {
						ok = false
					}
					s.Probe("member_restart")
				}
				join(int(op.A))
			}
			if !ok {
				return
			}
		}
	}
	if len(live) == 0 {
		join(0)
	}
	s.Heal()
	// quiet period: every pending membership change reaches the coordinator
	// and no environment event is left, before "stable" is declared
	lastEv := time.Duration(0)
	for _, ev := range p.Events {
		if d := time.Duration(ev.AtMs) * time.Millisecond; d > lastEv {
			lastEv = d
		}
	}
	if d := lastEv - s.Now(); d > 0 {
		time.Sleep(d)
	}
	time.Sleep(20 * time.Second)
	gs.mu.Lock()
	gs.stableSeq = s.Seq()
	gs.genAtStable = gs.maxGen
	gs.mu.Unlock()
	s.Logf("HEAL; membership stable with %d members at generation %d", len(live), gs.genAtStable)
	prodDone := make(chan struct{})
	go func() { prodWG.Wait(); close(prodDone) }()
	select {
	case <-prodDone:
	case <-time.After(5 * time.Minute):
		s.OutOfScope("producer did not finish")
	}
	s.Count("nontrivial", 1)

	// ground truth
	admin := s.Raw("admin")
	defer admin.Close()
	logs := map[tpKey]*RefLog{}
	for _, t := range topics {
		for q := int32(0); q < partsOf[t]; q++ {
			l, err := admin.ReadLog(t, q)
			if err != nil {
				s.OutOfScope("could not read the final logs")
				return
			}
			logs[tpKey{t, q}] = l
		}
	}
	var liveNames []string
	for _, m := range live {
		liveNames = append(liveNames, m.name)
	}
	sort.Strings(liveNames)

	// convergence: every partition owned by exactly one live member and all
	// data consumed by the group
	bound := time.Duration(p.Knob("liveness_bound_ms", 240000)) * time.Millisecond
	if !gs.defaults {
		conv := s.WaitFor(bound, 500*time.Millisecond, func() bool { return gs.unowned(liveNames) == "" })
		if !conv && gs.fencedAt == "" {
			cls := "C07/convergence/unowned"
			if p.Prop == "C27" && p.Knob("c27_purge", 0) != 0 {
				// the purge plans inject nothing that fences or impersonates a member
				cls = "C27/convergence/unowned"
			}
			s.Violf(cls, "membership stable for %v on a healthy cluster, yet: %s", bound, gs.unowned(liveNames))
		}
	}
	cbound := bound
	if p.Knob("process_ms", 0) >= 500 {
		cbound = 20 * time.Second
	}
	consumedAll := s.WaitFor(cbound, 500*time.Millisecond, func() bool { return gs.unconsumed(logs) == "" })
	if p.Knob("process_ms", 0) >= 500 {
		// a deliberately slow application: consumption speed says nothing
		consumedAll = true
	}
	if !consumedAll && gs.fencedAt == "" {
		s.Violf(groupLivenessProp(p.Prop)+"/liveness/group-not-consumed", "group with stable membership did not consume everything within %v: %s", bound, gs.unconsumed(logs))
	}
	// let autocommit / commits settle, then close everyone
	time.Sleep(time.Duration(p.Knob("settle_ms", 8000)) * time.Millisecond)
	var slots []int
	for sl := range live {
		slots = append(slots, sl)
	}
	sort.Ints(slots)
	// C09: before closing, compare the client's view with the broker's
	gs.checkCommits(admin, live)
	for _, sl := range slots {
		if !gs.closeMember(live[sl], "close") {
			return
		}
	}
	gs.judge(admin, logs)
}

// unowned describes a partition that is not owned by exactly one live member.
func (gs *groupState) unowned(live []string) string {
	owner := gs.replayOwnership(false)
	isLive := map[string]bool{}
	for _, n := range live {
		isLive[n] = true
	}
	for _, t := range gs.topics {
		subs := gs.subscribers(t, live)
		if len(subs) == 0 {
			continue // nobody subscribes to it (any more)
		}
		for q := int32(0); q < gs.partsOf[t]; q++ {
			o := owner[tpKey{t, q}]
			if o == "" {
				return fmt.Sprintf("%s/%d is owned by nobody (live members %v, subscribed to %s: %v)", t, q, live, t, subs)
			}
			if !isLive[o] {
				return fmt.Sprintf("%s/%d is owned by %s which is not a live member", t, q, o)
			}
		}
	}
	return ""
}

func (gs *groupState) unconsumed(logs map[tpKey]*RefLog) string {
	gs.mu.Lock()
	defer gs.mu.Unlock()
	have := map[tpKey]map[int64]bool{}
	for _, m := range gs.members {
		for _, pr := range m.polls {
			for _, r := range pr.recs {
				k := tpKey{r.topic, r.part}
				if have[k] == nil {
					have[k] = map[int64]bool{}
				}
				have[k][r.off] = true
			}
		}
	}
	for k, l := range logs {
		for _, r := range l.Records {
			if !have[k][r.Offset] {
				return fmt.Sprintf("%s/%d offset %d (log end %d) was never returned to any member", k.t, k.p, r.Offset, l.HWM)
			}
		}
	}
	return ""
}

// replayOwnership replays the callback history; with report it flags any
// partition assigned to a member while another member's ownership is open.
func (gs *groupState) replayOwnership(report bool) map[tpKey]string {
	gs.mu.Lock()
	defer gs.mu.Unlock()
	owner := map[tpKey]string{}
	eager := gs.mode == 0 || gs.mode == 3 || gs.mode == 4
	for _, e := range gs.evs {
		switch e.kind {
		case "assign-enter":
			for _, k := range e.parts {
				if o := owner[k]; o != "" && o != e.member && report {
					gs.s.Violf("C07/dual-ownership", "%s/%d assigned to %s at event %d (t=%v) while %s still owns it (no revoke/lost callback of %s for it has returned)", k.t, k.p, e.member, e.seq, e.at, o, o)
				}
				owner[k] = e.member
			}
		case "revoke-exit", "lost-exit":
			for _, k := range e.parts {
				if owner[k] == e.member {
					delete(owner, k)
				}
			}
			_ = eager
		case "closed":
			for k, o := range owner {
				if o == e.member {
					if report {
						gs.s.Violf("C07/close-without-revoke", "%s closed while still owning %s/%d: neither OnPartitionsRevoked nor OnPartitionsLost was called for it", e.member, k.t, k.p)
					}
					delete(owner, k)
				}
			}
		}
	}
	return owner
}

// wire monitors ------------------------------------------------------------

// staleClaims is the request-rewriting hook of the stale-claimant plans (C27:
// "all prior ownership states (including stale-generation claimants)"). A
// member whose JoinGroup was answered UNKNOWN_MEMBER_ID rejoins as a new
// member; a client that does not forget what it owned (another implementation
// in the same group, or this one before fix b996e06) sends its old claims
// along, with their old generation. The rewrite puts the member's own last
// claiming metadata back into its joins until it claims something again, so
// that the leader's balancer meets stale claimants whatever the client does.
func (gs *groupState) staleClaims(r *WireReq) kmsg.Request {
	jr, ok := r.Req.(*kmsg.JoinGroupRequest)
	if !ok || !strings.HasPrefix(r.Conn.Client, "m") {
		return nil
	}
	gs.mu.Lock()
	defer gs.mu.Unlock()
	for i := range jr.Protocols {
		if jr.Protocols[i].Name != "cooperative-sticky" {
			continue
		}
		md := kmsg.NewConsumerMemberMetadata()
		if err := md.ReadFrom(jr.Protocols[i].Metadata); err != nil {
			return nil
		}
		n := 0
		for _, o := range md.OwnedPartitions {
			n += len(o.Partitions)
		}
		if n > 0 {
			if gs.lastClaim == nil {
				gs.lastClaim = map[string][]byte{}
			}
			gs.lastClaim[r.Conn.Client] = append([]byte(nil), jr.Protocols[i].Metadata...)
			delete(gs.joinFenced, r.Conn.Client)
			return nil
		}
		if gs.joinFenced[r.Conn.Client] && gs.lastClaim[r.Conn.Client] != nil {
			jr.Protocols[i].Metadata = append([]byte(nil), gs.lastClaim[r.Conn.Client]...)
			gs.s.Probe("stale_claims_injected")
			return jr
		}
	}
	return nil
}

func (gs *groupState) onReq(r *WireReq) {
	if !strings.HasPrefix(r.Conn.Client, "m") {
		return
	}
	switch req := r.Req.(type) {
	case *kmsg.OffsetCommitRequest:
		wc := wireCommit{seq: r.Seq, client: r.Conn.Client, offsets: map[tpKey]int64{}, noproc: r.NoProc}
		for _, t := range req.Topics {
			name := gs.s.reqTopic(t.Topic, t.TopicID)
			for _, p := range t.Partitions {
				wc.offsets[tpKey{name, p.Partition}] = p.Offset
			}
		}
		gs.mu.Lock()
		gs.wireCmt = append(gs.wireCmt, wc)
		gs.mu.Unlock()
	case *kmsg.SyncGroupRequest:
		gs.checkSync(r, req)
	}
}

func (gs *groupState) onResp(r *WireResp) {
	if !strings.HasPrefix(r.Conn.Client, "m") || r.Resp == nil {
		return
	}
	fence := func(code int16, what string) {
		switch code {
		case 25, 110, 82, 111: // UNKNOWN_MEMBER_ID, FENCED_MEMBER_EPOCH, FENCED_INSTANCE_ID, UNRELEASED_INSTANCE_ID
			gs.mu.Lock()
			if gs.fencedAt == "" {
				gs.fencedAt = fmt.Sprintf("%s got error %d on %s", r.Conn.Client, code, what)
			}
			if m := gs.members[r.Conn.Client]; m != nil {
				m.fenced = true
			}
			gs.mu.Unlock()
		}
	}
	switch resp := r.Resp.(type) {
	case *kmsg.HeartbeatResponse:
		fence(resp.ErrorCode, "Heartbeat")
	case *kmsg.ConsumerGroupHeartbeatResponse:
		fence(resp.ErrorCode, "ConsumerGroupHeartbeat")
		gs.mu.Lock()
		if resp.MemberEpoch > gs.maxGen {
			gs.maxGen = resp.MemberEpoch
		}
		if resp.ErrorCode == 0 && resp.MemberEpoch != gs.lastEpoch[r.Conn.Client] {
			if gs.lastEpoch == nil {
				gs.lastEpoch = map[string]int32{}
			}
			gs.lastEpoch[r.Conn.Client] = resp.MemberEpoch
			gs.epochEvs = append(gs.epochEvs, epochEv{client: r.Conn.Client, seq: r.Seq})
		}
		gs.mu.Unlock()
	case *kmsg.SyncGroupResponse:
		fence(resp.ErrorCode, "SyncGroup")
	case *kmsg.JoinGroupResponse:
		if resp.ErrorCode == 25 {
			gs.mu.Lock()
			if gs.joinFenced == nil {
				gs.joinFenced = map[string]bool{}
			}
			gs.joinFenced[r.Conn.Client] = true
			gs.mu.Unlock()
		}
		if resp.ErrorCode == 0 {
			gs.mu.Lock()
			if resp.Generation > gs.maxGen {
				gs.maxGen = resp.Generation
			}
			if len(resp.Members) > 0 {
				js := &joinSnapshot{gen: resp.Generation, members: map[string]*kmsg.ConsumerMemberMetadata{}}
				for _, m := range resp.Members {
					md := kmsg.NewConsumerMemberMetadata()
					if err := md.ReadFrom(m.ProtocolMetadata); err == nil {
						js.members[m.MemberID] = &md
					}
				}
				gs.joinInfo[r.Conn.Client] = js
			}
			gs.mu.Unlock()
		}
	}
}

// checkSync is the C27 hand-off clause: the leader's plan must not give a
// partition to one member while another member's current claim holds it.
func (gs *groupState) checkSync(r *WireReq, req *kmsg.SyncGroupRequest) {
	if gs.mode != 1 || len(req.GroupAssignment) == 0 {
		return
	}
	gs.mu.Lock()
	js := gs.joinInfo[r.Conn.Client]
	gs.mu.Unlock()
	if js == nil || js.gen != req.Generation {
		return
	}
	gs.s.Probe("sync_plan_checked")
	// current claims: per partition, the claimant with the highest generation
	type claim struct {
		member string
		gen    int32
	}
	claims := map[tpKey]claim{}
	tied := map[tpKey]bool{}
	for id, md := range js.members {
		gen := md.Generation
		for _, o := range md.OwnedPartitions {
			for _, p := range o.Partitions {
				k := tpKey{o.Topic, p}
				if c, ok := claims[k]; !ok || gen > c.gen {
					claims[k] = claim{id, gen}
				} else if gen == c.gen && c.member != id {
					tied[k] = true // two claims of the same generation: no current owner can be named
				}
			}
		}
	}
	for _, ga := range req.GroupAssignment {
		var as kmsg.ConsumerMemberAssignment
		if err := as.ReadFrom(ga.MemberAssignment); err != nil {
			continue
		}
		for _, t := range as.Topics {
			for _, p := range t.Partitions {
				k := tpKey{t.Topic, p}
				if c, ok := claims[k]; ok && c.member != ga.MemberID && !tied[k] {
					gs.s.Probe("sync_plan_moves_claimed_partition")
					gs.s.Violf("C27/handoff/assigned-while-owned", "generation %d: the leader's plan gives %s/%d to %s while %s claims to own it (claim generation %d)", req.Generation, k.t, k.p, ga.MemberID, c.member, c.gen)
				}
			}
		}
	}
}

// checkCommits: C09.
func (gs *groupState) checkCommits(admin *RawCli, live map[int]*gmember) {
	s := gs.s
	// never hold the harness lock across a network round trip: a goroutine
	// parked on a sync.Mutex is not durably blocked and would stall the bubble
	var brokerView map[tpKey]int64
	if s.P.Knob("disable_autocommit", 0) != 0 {
		brokerView = gs.fetchCommitted(admin)
	}
	views := map[string]map[string]map[int32]kgo.EpochOffset{}
	for _, lm := range live {
		views[lm.name] = lm.cl.CommittedOffsets()
	}
	gs.mu.Lock()
	defer gs.mu.Unlock()
	for client, calls := range gs.commits {
		if len(calls) == 0 {
			continue
		}
		for _, c := range calls {
			if !c.done {
				s.Violf("C09/commit-never-finished", "%s: commit call #%d (%s) never completed", client, c.idx, c.kind)
			}
		}
		// arrival order at the coordinator
		lastIdx := -1
		for _, w := range gs.wireCmt {
			if w.client != client {
				continue
			}
			// candidate calls whose offsets equal this request's
			best := -1
			for _, c := range calls {
				if c.invokeSeq > w.seq {
					break
				}
				// CommitUncommittedOffsets decides its own content (a subset
				// of what this member polled); the other calls carry exactly
				// what the application passed.
				match := len(c.offsets) == len(w.offsets) || c.kind == "commit_uncommitted"
				for k, o := range w.offsets {
					if c.offsets[k] != o {
						match = false
					}
				}
				if match && c.idx >= lastIdx {
					best = c.idx
					break
				}
				if match && best == -1 {
					best = -2 - c.idx // matched only an older call
				}
			}
			switch {
			case best >= 0:
				lastIdx = best
			case best <= -2:
				s.Violf("C09/order/commit-arrived-late", "%s: a commit request equal to call #%d reached the coordinator after a request of call #%d", client, -2-best, lastIdx)
			}
		}
		// final value: the last successful call that included the partition.
		// A later call that reported an error may still have been applied by
		// the coordinator (its context ended after the request was sent):
		// such unconfirmed values are acceptable too, nothing else is.
		want := map[tpKey]int64{}
		allowed := map[tpKey]map[int64]bool{}
		for _, c := range calls {
			if c.done && c.err == nil {
				for k, o := range c.offsets {
					want[k] = o
					allowed[k] = map[int64]bool{o: true}
				}
			} else {
				for k, o := range c.offsets {
					if allowed[k] != nil {
						allowed[k][o] = true
					}
				}
			}
		}
		// with a second member partitions move and the library filters
		// what each call may commit; the value clause is judged on
		// single-member groups only (the order clause always)
		if len(want) == 0 || s.P.Knob("disable_autocommit", 0) == 0 {
			continue
		}
		if len(gs.members) != 1 {
			// Several members: judged for the partitions this member KEPT -
			// no revoke/lost callback of it named the partition since the
			// last successful commit of it was invoked, the member was not
			// fenced and is still there.
			if gs.fencedAt != "" || brokerView == nil {
				continue
			}
			lastCall := map[tpKey]*commitCall{}
			for _, c := range calls {
				if c.done && c.err == nil {
					for k := range c.offsets {
						lastCall[k] = c
					}
				}
			}
			view, live := views[client]
			if !live {
				continue
			}
			for k, o := range want {
				c := lastCall[k]
				kept, owned := true, false
				for _, e := range gs.evs {
					if e.member != client {
						continue
					}
					for _, ek := range e.parts {
						if ek != k {
							continue
						}
						if e.seq < c.invokeSeq {
							// owned when the commit was invoked: the last
							// callback naming it before that was an assign
							owned = e.kind == "assign-enter"
						} else if e.kind != "assign-enter" {
							kept = false
						}
					}
					if e.kind == "closed" {
						kept = false
					}
				}
				if !kept || !owned {
					continue
				}
				s.Count("c09.kept_partitions_judged", 1)
				g, ok := brokerView[k]
				if !ok || !allowed[k][g] {
					s.Violf("C09/final/broker-value", "%s kept %s/%d; its last successful commit was offset %d, the coordinator holds %d (present=%v), which no later unconfirmed commit carried", client, k.t, k.p, o, g, ok)
					continue
				}
				if g != o {
					continue
				}
				if eo, ok := view[k.t][k.p]; !ok {
					s.Violf("C09/final/client-view", "%s kept %s/%d and committed offset %d successfully (the coordinator holds it), but CommittedOffsets no longer lists the partition", client, k.t, k.p, o)
				} else if eo.Offset != o {
					cls, note := "C09/final/client-view", ""
					// was any record of the partition returned to the member
					// between its (last) assignment and the end of the commit?
					var assignSeq uint64
					for _, e := range gs.evs {
						if e.member == client && e.kind == "assign-enter" && e.seq < c.invokeSeq {
							for _, ek := range e.parts {
								if ek == k {
									assignSeq = e.seq
								}
							}
						}
					}
					polled := false
					if m := gs.members[client]; m != nil {
						for _, pr := range m.polls {
							if pr.ret > assignSeq && pr.ret < c.doneSeq { // returned (and so tracked) before the commit's response was handled
								for _, r := range pr.recs {
									if r.topic == k.t && r.part == k.p {
										polled = true
									}
								}
							}
						}
					}
					if !polled {
						cls, note = "C09/final/client-view/partition-not-polled-since-assignment", " (the member had not been returned a record of the partition since it was assigned, and committed an offset for it all the same)"
					}
					for _, ev := range gs.epochEvs {
						if ev.client == client && ev.seq > c.invokeSeq && ev.seq < c.doneSeq {
							cls, note = "C09/final/client-view/848-epoch-changed-during-commit", " (KIP-848 group: the member was handed a new member epoch while this commit was in flight)"
						}
					}
					s.Violf(cls, "%s: CommittedOffsets reports %d for kept partition %s/%d, the last successful commit (and the coordinator's value) is %d%s", client, eo.Offset, k.t, k.p, o, note)
				}
			}
			continue
		}
		got := brokerView
		if got == nil {
			continue
		}
		for k, o := range want {
			g, ok := got[k]
			if !ok || !allowed[k][g] {
				s.Violf("C09/final/broker-value", "%s: last successful commit of %s/%d was offset %d, the coordinator holds %d (present=%v) which no later unconfirmed commit carried", client, k.t, k.p, o, g, ok)
			}
		}
		if view, ok := views[client]; ok && len(gs.members) == 1 {
			for k, o := range want {
				if eo, ok := view[k.t][k.p]; ok && eo.Offset != o && got[k] == o {
					s.Violf("C09/final/client-view", "%s: CommittedOffsets reports %d for %s/%d, the last successful commit (and the coordinator's value) is %d", client, eo.Offset, k.t, k.p, o)
				}
			}
		}
	}
}

func (gs *groupState) fetchCommitted(admin *RawCli) map[tpKey]int64 {
	req := kmsg.NewPtrOffsetFetchRequest()
	req.Group = "g"
	rg := kmsg.NewOffsetFetchRequestGroup()
	rg.Group = "g"
	req.Groups = append(req.Groups, rg)
	coord := gs.s.Cluster.CoordinatorFor("g")
	if coord < 0 {
		coord = 0
	}
	resp, err := admin.Do(coord, req)
	if err != nil {
		return nil
	}
	out := map[tpKey]int64{}
	r := resp.(*kmsg.OffsetFetchResponse)
	for _, g := range r.Groups {
		for _, t := range g.Topics {
			name := gs.s.reqTopic(t.Topic, t.TopicID)
			for _, p := range t.Partitions {
				if p.ErrorCode == 0 && p.Offset >= 0 {
					out[tpKey{name, p.Partition}] = p.Offset
				}
			}
		}
	}
	for _, t := range r.Topics {
		for _, p := range t.Partitions {
			if p.ErrorCode == 0 && p.Offset >= 0 {
				out[tpKey{t.Topic, p.Partition}] = p.Offset
			}
		}
	}
	return out
}

func (gs *groupState) judge(admin *RawCli, logs map[tpKey]*RefLog) {
	s := gs.s
	if gs.fencedAt != "" && (s.P.Prop == "C13" || s.P.Prop == "C41") {
		// Close and data-race checks do not assume graceful members
		s.Probe("member_fenced")
		return
	}
	if gs.fencedAt != "" && s.P.Prop != "C27" {
		s.OutOfScope("a member was fenced (" + strings.SplitN(gs.fencedAt, " ", 2)[1] + ")")
		return
	}
	if gs.fencedAt != "" {
		// C27's hand-off clause was checked on the wire while the run went
		// on (stale claims are exactly what it is about); the other
		// clauses assume graceful members.
		s.Probe("member_fenced_in_c27_run")
		return
	}
	if !gs.defaults {
		gs.replayOwnership(true)
	}
	var finalCommitted map[tpKey]int64
	if s.P.Knob("autocommit_check", 0) != 0 {
		finalCommitted = gs.fetchCommitted(admin)
	}
	gs.mu.Lock()
	defer gs.mu.Unlock()
	// C31 (system level): no revocation between a poll that returned records
	// and the following AllowRebalance
	if gs.block && !gs.defaults {
		for _, m := range gs.members {
			for _, pr := range m.polls {
				if len(pr.recs) == 0 || pr.allowSeq == 0 {
					continue
				}
				for _, e := range gs.evs {
					if m.closeSeq != 0 && e.seq > m.closeSeq {
						continue // CloseAllowingRebalance / LeaveGroup deliberately let the rebalance through
					}
					if e.member == m.name && (e.kind == "revoke-enter" || e.kind == "lost-enter") && e.seq > pr.ret && e.seq < pr.allowSeq {
						s.Violf("C31/rebalance-during-poll", "%s: %s at event %d between a poll that returned %d records (event %d) and AllowRebalance (event %d)", m.name, e.kind, e.seq, len(pr.recs), pr.ret, pr.allowSeq)
					}
				}
				s.Probe("poll_with_records_then_allow")
			}
		}
	}
	// ownership as the application sees it: a poll that STARTED after the
	// member's revoke/lost callback for a partition returned, with no
	// assignment of it since, returns no record of that partition (a member
	// that "revoked" but keeps fetching consumes next to the new owner)
	if !gs.defaults {
		for _, m := range gs.members {
			last := map[tpKey]*ownEvent{}
			ei := 0
			var evs []*ownEvent
			for i := range gs.evs {
				if e := &gs.evs[i]; e.member == m.name && (e.kind == "assign-enter" || e.kind == "revoke-exit" || e.kind == "lost-exit") {
					evs = append(evs, e)
				}
			}
			for _, pr := range m.polls {
				for ei < len(evs) && evs[ei].seq < pr.start {
					for _, k := range evs[ei].parts {
						last[k] = evs[ei]
					}
					ei++
				}
				for _, r := range pr.recs {
					k := tpKey{r.topic, r.part}
					e := last[k]
					if e == nil || e.kind == "assign-enter" {
						continue
					}
					// assigned again while the poll was waiting?
					again := false
					for j := ei; j < len(evs) && evs[j].seq < pr.ret; j++ {
						if evs[j].kind == "assign-enter" {
							for _, ek := range evs[j].parts {
								again = again || ek == k
							}
						}
					}
					if !again {
						cls := "C07/consumed-after-revoke"
						if s.P.Prop == "C27" {
							cls = "C27/handoff/consumed-after-revoke"
						}
						s.Violf(cls, "%s: a poll that started at event %d returned %s/%d@%d although the member's %s for that partition had returned at event %d and it was not assigned again", m.name, pr.start, r.topic, r.part, r.off, strings.TrimSuffix(e.kind, "-exit"), e.seq)
						break
					}
				}
			}
		}
	}
	// C08: a committed offset only covers processed records
	type deliv struct{ processed uint64 }
	first := map[tpKey]map[int64]uint64{} // earliest "processed" seq per record
	for _, m := range gs.members {
		for i, pr := range m.polls {
			next := ^uint64(0)
			if i+1 < len(m.polls) {
				next = m.polls[i+1].start
			}
			for _, r := range pr.recs {
				k := tpKey{r.topic, r.part}
				if first[k] == nil {
					first[k] = map[int64]uint64{}
				}
				if cur, ok := first[k][r.off]; !ok || next < cur {
					first[k][r.off] = next
				}
			}
		}
	}
	if s.P.Knob("autocommit_check", 0) != 0 {
		for _, w := range gs.wireCmt {
			for k, o := range w.offsets {
				l := logs[k]
				if l == nil {
					continue
				}
				for _, r := range l.Records {
					if r.Offset >= o {
						break
					}
					ps, ok := first[k][r.Offset]
					if !ok {
						s.Violf("C08/commit-covers-undelivered", "%s committed %s/%d offset %d (request at event %d) but offset %d was never returned to any member", w.client, k.t, k.p, o, w.seq, r.Offset)
						break
					}
					if ps > w.seq {
						s.Violf("C08/commit-covers-unprocessed", "%s committed %s/%d offset %d (request at event %d) but offset %d had only been returned from a poll whose member had not started another poll yet", w.client, k.t, k.p, o, w.seq, r.Offset)
						break
					}
				}
				s.Probe("autocommit_request_checked")
			}
		}
		if got := finalCommitted; got != nil {
			for k, o := range got {
				l := logs[k]
				if l == nil {
					continue
				}
				for _, r := range l.Records {
					if r.Offset >= o {
						break
					}
					if _, ok := first[k][r.Offset]; !ok {
						s.Violf("C08/final-commit-covers-undelivered", "final committed offset of %s/%d is %d but offset %d was never returned to any member", k.t, k.p, o, r.Offset)
						break
					}
				}
			}
		}
	}
	// C27 convergence: generations after membership became stable
	if gs.mode == 1 && gs.maxGen-gs.genAtStable > 3 && s.P.Knob("stale_family", 0) == 0 {
		s.Violf("C27/convergence/too-many-rebalances", "%d generations completed after membership stopped changing (generation %d -> %d)", gs.maxGen-gs.genAtStable, gs.genAtStable, gs.maxGen)
	}
	s.Max("generations_max", int64(gs.maxGen))
}

// groupLivenessProp: the group scenario's completeness clause belongs to the
// group property whose emphasis generated the plan; plans generated for the
// cross-cutting properties (C13 Close, C41 races) file it under C07.
func groupLivenessProp(prop string) string {
	if prop == "C13" || prop == "C41" {
		return "C07"
	}
	return prop
}
