//go:build race

package sim

// raceBuild: the binary runs under the race detector (C41). The harness then
// avoids its own locks on paths every client goroutine takes (the logger
// above all): a mutex shared by all goroutines orders their accesses for the
// detector and hides the races of the code under test.
const raceBuild = true
