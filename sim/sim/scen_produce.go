package sim

import (
	"context"
	"errors"
	"fmt"
	"sort"
	"strings"
	"sync"
	"time"

	"github.com/twmb/franz-go/pkg/kfake"
	"github.com/twmb/franz-go/pkg/kgo"
	"github.com/twmb/franz-go/pkg/kmsg"

	"verifsim/plan"
)

func init() { Scenarios["produce"] = scenProduce }

// prec is everything the history knows about one record handed to the client.
type prec struct {
	id         int
	client     string
	actor      int
	idx        int
	kind       string
	topic      string
	part       int32
	val        string
	size       int
	rec        *kgo.Record
	invokeSeq  uint64
	returnSeq  uint64
	promises   int
	promSeq    uint64
	promEndSeq uint64 // event at which the promise callback returned
	promAt     time.Duration
	err        error
	off        int64
	bufHook    int
	unbufHook  int
	unbufErr   error
	unbufSeq   uint64
	afterClose bool // produced (invoked) after the client's Close started
}

type flushRec struct {
	client               string
	invokeSeq, returnSeq uint64
	err                  error
	done                 bool
}

type prodState struct {
	s  *Sim
	mu sync.Mutex

	recs    []*prec
	byPtr   map[*kgo.Record]*prec
	byVal   map[string]*prec
	flushes []*flushRec
	cancels []context.CancelFunc // event-triggered cancellation pool
	closing map[string]uint64    // client -> seq at which Close was invoked
	closed  map[string]bool
	cur     map[string]string // actor -> current op (for hang reports)
	foreign int

	maxRecs  int64
	maxBytes int64
	nactors  int64
}

type prodHooks struct {
	st     *prodState
	client string
}

func (h *prodHooks) OnProduceRecordBuffered(r *kgo.Record) {
	st := h.st
	defer st.s.UserCode()
	st.mu.Lock()
	defer st.mu.Unlock()
	if p := st.byPtr[r]; p != nil {
		p.bufHook++
	} else {
		st.foreign++
		st.s.Violf("C14/buffered-hook/foreign", "OnProduceRecordBuffered for a record never produced: %q", r.Value)
	}
}

func (h *prodHooks) OnProduceRecordUnbuffered(r *kgo.Record, err error) {
	st := h.st
	defer st.s.UserCode()
	st.mu.Lock()
	defer st.mu.Unlock()
	if p := st.byPtr[r]; p != nil {
		p.unbufHook++
		p.unbufErr = err
		p.unbufSeq = st.s.Seq()
		if p.unbufHook > 1 {
			st.s.Violf("C14/unbuffered-hook/twice", "OnProduceRecordUnbuffered called %d times for %s", p.unbufHook, p.val)
		}
	} else {
		st.s.Violf("C14/unbuffered-hook/foreign", "OnProduceRecordUnbuffered for a record never produced: %q", r.Value)
	}
}

// topicPad lengthens the names of the seeded topics (knob topic_pad; one run
// per process, so a package variable is safe): request size accounting
// depends on the length of topic names.
var topicPad string

func topicName(i int64) string {
	switch i {
	case -1:
		return "late"
	case -2:
		return "nope"
	}
	return fmt.Sprintf("t%d", i) + topicPad
}

func topicIndex(t string) int64 {
	var i int64
	fmt.Sscanf(t, "t%d", &i)
	return i
}

func codecOpt(c int64) kgo.Opt {
	switch c {
	case 1:
		return kgo.ProducerBatchCompression(kgo.GzipCompression())
	case 2:
		return kgo.ProducerBatchCompression(kgo.SnappyCompression())
	case 3:
		return kgo.ProducerBatchCompression(kgo.Lz4Compression())
	case 4:
		return kgo.ProducerBatchCompression(kgo.ZstdCompression())
	}
	return kgo.ProducerBatchCompression(kgo.NoCompression())
}

func (st *prodState) producerOpts(name string) []kgo.Opt {
	p := st.s.P
	opts := []kgo.Opt{
		kgo.RecordPartitioner(kgo.ManualPartitioner()),
		kgo.WithHooks(&prodHooks{st: st, client: name}),
		kgo.MaxBufferedRecords(int(p.Knob("max_buf_recs", 10000))),
		kgo.ProducerLinger(time.Duration(p.Knob("linger_ms", 0)) * time.Millisecond),
		kgo.ProducerBatchMaxBytes(int32(p.Knob("batch_max_bytes", 1000012))),
		kgo.BrokerMaxWriteBytes(int32(p.Knob("max_write_bytes", 100<<20))),
		codecOpt(p.Knob("codec", 0)),
		kgo.UnknownTopicRetries(int(p.Knob("unknown_topic_retries", 4))),
	}
	if v := p.Knob("max_buf_bytes", 0); v > 0 {
		opts = append(opts, kgo.MaxBufferedBytes(int(v)))
	}
	if p.Knob("manual_flush", 0) != 0 {
		opts = append(opts, kgo.ManualFlushing())
	}
	if v := p.Knob("retries", -1); v >= 0 {
		opts = append(opts, kgo.RecordRetries(int(v)))
	}
	if v := p.Knob("delivery_timeout_ms", 0); v > 0 {
		opts = append(opts, kgo.RecordDeliveryTimeout(time.Duration(v)*time.Millisecond))
	}
	if v := p.Knob("produce_timeout_ms", 0); v > 0 {
		opts = append(opts, kgo.ProduceRequestTimeout(time.Duration(v)*time.Millisecond))
	}
	if p.Knob("allow_cancel", 0) != 0 {
		opts = append(opts, kgo.AllowIdempotentProduceCancellation())
	}
	if p.Knob("disable_idem", 0) != 0 {
		opts = append(opts, kgo.DisableIdempotentWrite(), kgo.MaxProduceRequestsInflightPerBroker(int(p.Knob("inflight", 1))))
	}
	return opts
}

func (st *prodState) newRec(client string, actor, idx int, kind string, op plan.Op) *prec {
	val := fmt.Sprintf("%s/a%d/%d|", client, actor, idx)
	if n := int(op.C) - len(val); n > 0 {
		val += strings.Repeat("x", n)
	}
	r := &kgo.Record{Topic: topicName(op.A), Partition: int32(op.B), Value: []byte(val), Key: []byte(fmt.Sprintf("k%d", idx%3))}
	if pct := st.s.P.Knob("user_ts_pct", 0); pct > 0 {
		// the application stamps records itself, not in order (event time)
		x := mix64(st.s.P.Seed ^ uint64(actor)<<32 ^ uint64(idx)*0x9e3779b97f4a7c15)
		if int64(x%100) < pct {
			r.Timestamp = time.UnixMilli(1_700_000_000_000 + int64(x>>8%20000) - 10000)
		}
	}
	p := &prec{id: len(st.recs), client: client, actor: actor, idx: idx, kind: kind, topic: r.Topic, part: r.Partition, val: val, size: len(val), rec: r, off: -1}
	st.mu.Lock()
	st.recs = append(st.recs, p)
	st.byPtr[r] = p
	st.byVal[val] = p
	if _, ok := st.closing[client]; ok {
		p.afterClose = true
	}
	st.mu.Unlock()
	return p
}

func (st *prodState) promise(p *prec) func(*kgo.Record, error) {
	cbCancel := st.s.P.Knob("cb_cancel_pct", 0)
	return func(r *kgo.Record, err error) {
		st.mu.Lock()
		if r != p.rec {
			st.s.Violf("C01/promise/foreign", "promise of %s called with another record %q", p.val, r.Value)
		}
		p.promises++
		p.promSeq = st.s.Seq()
		p.promAt = st.s.Now()
		p.err = err
		p.off = r.Offset
		if p.promises > 1 {
			st.s.Violf("C01/promise/twice", "promise called %d times for %s (err=%v)", p.promises, p.val, err)
		}
		var cancel context.CancelFunc
		if cbCancel > 0 && len(st.cancels) > 0 && st.s.Rng.Int63n(100) < cbCancel {
			i := st.s.Rng.Intn(len(st.cancels))
			cancel = st.cancels[i]
			st.cancels = append(st.cancels[:i], st.cancels[i+1:]...)
			st.s.Probe("cancel_from_promise")
		}
		st.mu.Unlock()
		if cancel != nil {
			cancel() // event-triggered: runs while other goroutines are runnable
		}
		st.s.UserCode()
		st.mu.Lock()
		inline := p.returnSeq == 0 // called from inside Produce/TryProduce itself (immediate failure)
		st.mu.Unlock()
		if pct := st.s.P.Knob("prom_sleep_pct", 0); pct > 0 && !inline && int64(st.s.Pick(100)) < pct {
			// a promise that takes its time (only the promise: hooks inside
			// TryProduce stay instantaneous)
			time.Sleep(time.Duration(100+st.s.Pick(int(st.s.P.Knob("prom_sleep_us_max", 5000)))) * time.Microsecond)
		}
		st.mu.Lock()
		p.promEndSeq = st.s.Seq()
		st.mu.Unlock()
	}
}

func (st *prodState) ctxFor(op plan.Op) (context.Context, context.CancelFunc) {
	switch {
	case op.D > 0:
		return context.WithTimeout(context.Background(), time.Duration(op.D)*time.Millisecond)
	case op.D == -1:
		ctx, cancel := context.WithCancel(context.Background())
		st.mu.Lock()
		st.cancels = append(st.cancels, cancel)
		st.mu.Unlock()
		return ctx, func() {}
	}
	return context.Background(), func() {}
}

func (st *prodState) setCur(actor, what string) {
	st.mu.Lock()
	st.cur[actor] = what
	st.mu.Unlock()
}

// gaugeCheck: the gauge counts buffered records plus callers currently
// blocked in Produce (documented behaviour of the gauge), so the bound is the
// limit plus the number of application goroutines that can be blocked at once.
func (st *prodState) gaugeCheck(cl *kgo.Client, where string) {
	if n := cl.BufferedProduceRecords(); n > st.maxRecs+st.nactors {
		st.s.Violf("C03/limit/gauge-records", "BufferedProduceRecords=%d exceeds MaxBufferedRecords=%d + %d possible blocked callers (%s)", n, st.maxRecs, st.nactors, where)
	}
}

func (st *prodState) runActor(cl *kgo.Client, client string, ai int, a plan.Actor) {
	s := st.s
	idx := 0
	manual := s.P.Knob("manual_flush", 0) != 0
	for oi, op := range a.Ops {
		st.setCur(a.Name, fmt.Sprintf("op#%d %s", oi, op.Kind))
		switch op.Kind {
		case "sleep":
			time.Sleep(time.Duration(op.A) * time.Millisecond)
		case "produce", "try":
			p := st.newRec(client, ai, idx, op.Kind, op)
			idx++
			ctx, cancel := st.ctxFor(op)
			p.invokeSeq = s.Seq()
			t0 := s.Now()
			b0 := rtSpinBreaksNow()
			if op.Kind == "try" || manual {
				if op.Kind == "try" {
					cl.TryProduce(ctx, p.rec, st.promise(p))
				} else {
					cl.Produce(ctx, p.rec, st.promise(p))
				}
				if d := s.Now() - t0; d > 0 && rtSpinBreaksNow() == b0 { // (time the spin guard charged to a busy loop elsewhere in the client is not this call blocking)
					// the fake clock only advances when every goroutine is
					// durably blocked, so elapsed time means the call blocked.
					s.Violf("C03/tryproduce-blocked", "%s blocked for %v (manual=%v)", op.Kind, d, manual)
				}
			} else {
				cl.Produce(ctx, p.rec, st.promise(p))
			}
			st.mu.Lock()
			p.returnSeq = s.Seq()
			st.mu.Unlock()
			_ = cancel
			st.gaugeCheck(cl, "after "+op.Kind)
		case "sync":
			var recs []*kgo.Record
			var ps []*prec
			for i := int64(0); i < op.D; i++ {
				p := st.newRec(client, ai, idx, "sync", op)
				idx++
				ps = append(ps, p)
				recs = append(recs, p.rec)
			}
			ctx, cancel := context.Background(), func() {}
			if op.S == "timeout" {
				ctx, cancel = context.WithTimeout(ctx, 5*time.Second)
			}
			inv := s.Seq()
			res := cl.ProduceSync(ctx, recs...)
			ret := s.Seq()
			cancel()
			if len(res) != len(recs) {
				s.Violf("C01/sync/result-count", "ProduceSync of %d records returned %d results", len(recs), len(res))
			}
			st.mu.Lock()
			for _, p := range ps {
				p.invokeSeq, p.returnSeq = inv, ret
			}
			for _, r := range res {
				// results are in promise order, not in argument order
				p := st.byPtr[r.Record]
				if p == nil || p.invokeSeq != inv {
					s.Violf("C01/sync/foreign", "ProduceSync returned a result for a record that was not passed: %.40q", r.Record.Value)
					continue
				}
				p.promises++
				p.promSeq = ret
				p.promAt = s.Now()
				p.err = r.Err
				p.off = r.Record.Offset
				if p.promises > 1 {
					s.Violf("C01/sync/twice", "ProduceSync returned %d results for %s", p.promises, p.val)
				}
			}
			st.mu.Unlock()
		case "flush":
			fr := &flushRec{client: client}
			ctx, cancel := context.Background(), func() {}
			if op.D > 0 {
				ctx, cancel = context.WithTimeout(ctx, time.Duration(op.D)*time.Millisecond)
			}
			st.mu.Lock()
			st.flushes = append(st.flushes, fr)
			st.mu.Unlock()
			fr.invokeSeq = s.Seq()
			err := cl.Flush(ctx)
			st.mu.Lock()
			fr.returnSeq = s.Seq()
			fr.err = err
			fr.done = true
			st.mu.Unlock()
			cancel()
		case "abort":
			ctx, cancel := context.WithTimeout(context.Background(), time.Duration(max64(op.D, 1000))*time.Millisecond)
			cl.AbortBufferedRecords(ctx)
			cancel()
			s.Probe("abort_buffered")
		case "purge":
			cl.PurgeTopicsFromClient(topicName(op.A))
			s.Probe("purge")
		case "cancel":
			st.mu.Lock()
			var cancel context.CancelFunc
			if len(st.cancels) > 0 {
				cancel = st.cancels[0]
				st.cancels = st.cancels[1:]
			}
			st.mu.Unlock()
			if cancel != nil {
				cancel()
				s.Probe("cancel_from_actor")
			}
		case "close":
			st.mu.Lock()
			_, already := st.closing[client]
			if !already {
				st.closing[client] = s.Seq()
			}
			st.mu.Unlock()
			if !already {
				t0 := s.Now()
				s.CloseCl(cl, false)
				s.Max("close_ms_max", int64((s.Now()-t0)/time.Millisecond))
				st.mu.Lock()
				st.closed[client] = true
				st.mu.Unlock()
				s.Forget(client)
				s.Probe("close_mid_run")
			}
		}
	}
	st.setCur(a.Name, "done")
}

func max64(a, b int64) int64 {
	if a > b {
		return a
	}
	return b
}

func scenProduce(s *Sim) {
	p := s.P
	nb := int(p.Knob("nbroker", 3))
	nparts := int32(p.Knob("nparts", 3))
	ntopics := int(p.Knob("ntopics", 1))
	if n := p.Knob("topic_pad", 0); n > 0 {
		topicPad = "-" + strings.Repeat("x", int(n))
	}
	var topics []string
	for i := 0; i < ntopics; i++ {
		topics = append(topics, topicName(int64(i)))
	}
	s.StartCluster(nb, kfake.SeedTopics(nparts, topics...))
	st := &prodState{s: s, byPtr: map[*kgo.Record]*prec{}, byVal: map[string]*prec{}, closing: map[string]uint64{}, closed: map[string]bool{}, cur: map[string]string{},
		maxRecs: p.Knob("max_buf_recs", 10000), maxBytes: p.Knob("max_buf_bytes", 0), nactors: int64(len(p.Actors))}
	admin := s.Raw("admin")
	if p.Knob("mixed_versions", 0) != 0 {
		// brokers of one cluster negotiate different produce versions
		capProduceVersions(s, []int16{0, int16(p.Knob("old_produce_ver", 6)), 0, int16(p.Knob("old_produce_ver2", 3))})
	} else if v := p.Knob("produce_cap_all", 0); v > 0 {
		// a cluster of an older release: every broker stops at this version
		capProduceVersions(s, []int16{int16(v)})
	}

	wm := newProduceWire(s, st)
	s.OnReq = append(s.OnReq, wm.onReq)
	s.OnResp = append(s.OnResp, wm.onResp)
	s.OnProcessed = append(s.OnProcessed, wm.onProcessed)
	s.OnWritten = append(s.OnWritten, wm.onWritten)

	// clients
	clients := map[string]*kgo.Client{}
	var names []string
	for _, a := range p.Actors {
		if _, ok := clients[a.Client]; !ok {
			clients[a.Client] = s.Client(a.Client, st.producerOpts(a.Client)...)
			names = append(names, a.Client)
		}
	}
	// C29: fast-forward partitions to just below the sequence wrap before
	// their first batch. The producer id is loaded first (loading it resets
	// all sequences), one record to the topic's last partition creates the
	// partition buffers, then the verif-tagged hook sets the next sequence.
	if wk := p.Knob("wrap_k", 0); wk > 0 {
		for _, n := range names {
			cl := clients[n]
			ctx, cancel := context.WithTimeout(context.Background(), 30*time.Second)
			if _, _, err := cl.ProducerID(ctx); err != nil {
				s.Logf("wrap: ProducerID: %v", err)
			}
			for _, t := range topics {
				warm := st.newRec(n, 99, 0, "sync", plan.Op{A: topicIndex(t), B: int64(nparts - 1), C: 10})
				warm.invokeSeq = s.Seq()
				res := cl.ProduceSync(ctx, warm.rec)
				warm.returnSeq = s.Seq()
				st.mu.Lock()
				warm.promises, warm.promSeq, warm.err, warm.off = 1, warm.returnSeq, res.FirstErr(), warm.rec.Offset
				st.mu.Unlock()
				for part := int32(0); part < nparts-1; part++ {
					seq := int32(seqMod - 1 - int64(mix64(s.P.Seed^uint64(part+1)*77)%uint64(wk)))
					if err := cl.VerifSetProduceSequence(t, part, seq); err != nil {
						s.Logf("wrap: %v", err)
					} else {
						s.Probe("sequence_fast_forwarded")
						s.Logf("wrap: %s %s/%d next sequence %d", n, t, part, seq)
					}
				}
			}
			cancel()
		}
	}
	// gauge invariant at every quiescent point
	s.Invariants = append(s.Invariants, func() {
		for _, n := range names {
			st.mu.Lock()
			closed := st.closed[n]
			st.mu.Unlock()
			if !closed {
				st.gaugeCheck(clients[n], "quiescent point")
			}
		}
	})
	// environment events
	for _, ev := range p.Events {
		ev := ev
		s.At(time.Duration(ev.AtMs)*time.Millisecond, func() { produceEnvEvent(s, admin, ev, nb, nparts) })
	}
	s.ScheduleTimedFaults()

	for ai, a := range p.Actors {
		ai, a := ai, a
		s.Go(func() { st.runActor(clients[a.Client], a.Client, ai, a) })
	}

	faultPhase := time.Duration(p.Knob("fault_phase_ms", 60000)) * time.Millisecond
	allDone := s.WaitActors(faultPhase)
	s.Heal()
	s.Logf("HEAL (actors done=%v)", allDone)
	settle := time.Duration(p.Knob("settle_ms", 180000)) * time.Millisecond
	if !allDone {
		allDone = s.WaitActors(settle)
	}
	hasDelete := false
	for _, ev := range p.Events {
		if ev.Kind == "delete_topic" {
			hasDelete = true
		}
	}
	if !allDone {
		st.mu.Lock()
		var stuck []string
		for a, c := range st.cur {
			if c != "done" {
				stuck = append(stuck, a+": "+c)
			}
		}
		sort.Strings(stuck)
		st.mu.Unlock()
		if hasDelete {
			// records for a deleted topic retry for ever by configuration
			// (no retry limit, no delivery timeout); callers blocked behind
			// them are released by Close below.
			s.Probe("stuck_behind_deleted_topic")
		} else {
			cls := "C03/hang/produce-blocked"
			for _, x := range stuck {
				switch {
				case strings.Contains(x, "flush"):
					cls = "C03/hang/flush"
				case strings.Contains(x, "close"):
					cls = "C13/hang/close"
				case strings.Contains(x, "abort"):
					cls = "C01/hang/abort"
				}
			}
			s.Violf(cls, "actors still blocked %v after heal on a healthy cluster: %v\n%s", settle, stuck, goroutineDump("kgo"))
		}
		// Close releases everything (C13, C01 last sentence).
		for _, n := range names {
			st.mu.Lock()
			_, closing := st.closing[n]
			if !closing {
				st.closing[n] = s.Seq()
			}
			st.mu.Unlock()
			if closing {
				continue
			}
			if !closeBounded(s, clients[n], n) {
				return
			}
			st.mu.Lock()
			st.closed[n] = true
			st.mu.Unlock()
		}
		if !s.WaitActors(2 * time.Minute) {
			st.mu.Lock()
			var stuck []string
			for a, c := range st.cur {
				if c != "done" {
					stuck = append(stuck, a+": "+c)
				}
			}
			st.mu.Unlock()
			sort.Strings(stuck)
			s.Violf("C13/hang/caller-after-close", "callers still blocked 2m after Close returned: %v\n%s", stuck, goroutineDump("kgo"))
			return
		}
	}

	// All actors returned. Every promise must run (the remaining records
	// drain on a healthy cluster, or fail on their own limits).
	unpromised := func() []*prec {
		st.mu.Lock()
		defer st.mu.Unlock()
		var out []*prec
		for _, r := range st.recs {
			if r.promises == 0 {
				out = append(out, r)
			}
		}
		return out
	}
	// under manual flushing nothing drains by itself: flush (this is also the
	// "pending Flush returns" clause of C01).
	for _, n := range names {
		st.mu.Lock()
		closed := st.closed[n]
		st.mu.Unlock()
		if closed {
			continue
		}
		cl := clients[n]
		ctx, cancel := context.WithTimeout(context.Background(), settle)
		err := cl.Flush(ctx)
		cancel()
		if err != nil && hasDelete {
			s.Probe("stuck_behind_deleted_topic")
			continue
		}
		if err != nil {
			s.Violf("C01/flush-after-heal", "final Flush of %s did not finish in %v after heal: %v; unpromised=%d buffered=%d\n%s", n, settle, err, len(unpromised()), cl.BufferedProduceRecords(), goroutineDump("kgo"))
			return
		}
	}
	if !hasDelete && !s.WaitFor(30*time.Second, 50*time.Millisecond, func() bool { return len(unpromised()) == 0 }) {
		u := unpromised()
		s.Violf("C01/promise/never", "%d records never had their promise called (first: %s kind=%s)", len(u), u[0].val, u[0].kind)
	}
	for _, n := range names {
		st.mu.Lock()
		closed := st.closed[n]
		st.mu.Unlock()
		if closed {
			continue
		}
		cl := clients[n]
		if r, b := cl.BufferedProduceRecords(), cl.BufferedProduceBytes(); (r != 0 || b != 0) && len(unpromised()) == 0 {
			// the decrement happens right after the promise; give it a moment
			time.Sleep(time.Millisecond)
			if r, b = cl.BufferedProduceRecords(), cl.BufferedProduceBytes(); r != 0 || b != 0 {
				s.Violf("C01/gauge-nonzero", "all promises ran but BufferedProduceRecords=%d BufferedProduceBytes=%d on %s", r, b, n)
			}
		}
		if !closeBounded(s, cl, n) {
			return
		}
	}
	if u := unpromised(); len(u) > 0 {
		if !s.WaitFor(30*time.Second, 50*time.Millisecond, func() bool { return len(unpromised()) == 0 }) {
			u = unpromised()
			s.Violf("C01/promise/never-after-close", "%d records never had their promise called although every client was closed (first: %s kind=%s)", len(u), u[0].val, u[0].kind)
		}
	}

	st.checkHistory()
	st.checkLogs(admin, topics, nparts)
	wm.finish()
	admin.Close()
}

// closeBounded closes a client and reports a violation if Close does not
// return within five simulated minutes.
func closeBounded(s *Sim, cl *kgo.Client, name string) bool {
	t0 := s.Now()
	done := make(chan struct{})
	go func() { s.CloseCl(cl, s.P.Knob("block_rebalance", 0) != 0); close(done) }()
	select {
	case <-done:
	case <-time.After(s.CloseBoundAtLeast(cl, 5*time.Minute)):
		s.Violf("C13/hang/close", "Close of %s did not return within 5m (or the bound from its time-outs)\n%s", name, goroutineDump("kgo"))
		return false
	}
	s.Max("close_ms_max", int64((s.Now()-t0)/time.Millisecond))
	s.Forget(name)
	return true
}

func produceEnvEvent(s *Sim, admin *RawCli, ev plan.Event, nb int, nparts int32) {
	switch ev.Kind {
	case "move":
		t := topicName(ev.A)
		part := int32(ev.B)
		cur := s.Cluster.LeaderFor(t, part)
		if cur < 0 {
			return
		}
		to := (cur + 1 + int32(ev.B)%int32(max(nb-1, 1))) % int32(nb)
		if nb == 1 {
			return
		}
		if to == cur {
			to = (cur + 1) % int32(nb)
		}
		if err := s.Cluster.MoveTopicPartition(t, part, to); err == nil {
			s.Count("env.move", 1)
			s.Logf("ENV move %s/%d %d->%d", t, part, cur, to)
		}
	case "shuffle":
		s.Cluster.ShufflePartitionLeaders()
		s.Count("env.shuffle", 1)
		s.Logf("ENV shuffle leaders")
	case "create_late":
		req := kmsg.NewPtrCreateTopicsRequest()
		rt := kmsg.NewCreateTopicsRequestTopic()
		rt.Topic = "late"
		rt.NumPartitions = nparts
		rt.ReplicationFactor = 1
		req.Topics = append(req.Topics, rt)
		req.TimeoutMillis = 5000
		c := s.Raw("envadmin")
		if _, err := c.DoController(req); err == nil {
			s.Count("env.create_topic", 1)
			s.Logf("ENV create topic late")
		}
		c.Close()
	case "delete_topic":
		req := kmsg.NewPtrDeleteTopicsRequest()
		t := topicName(ev.A)
		req.TopicNames = []string{t}
		rt := kmsg.NewDeleteTopicsRequestTopic()
		rt.Topic = kmsg.StringPtr(t)
		req.Topics = append(req.Topics, rt)
		req.TimeoutMillis = 5000
		c := s.Raw("envadmin")
		if _, err := c.DoController(req); err == nil {
			s.Count("env.delete_topic", 1)
			s.Logf("ENV delete topic %s", t)
		}
		c.Close()
	}
}

func goroutineDump(filter string) string {
	return filteredStacks(filter, 30)
}

// checkHistory evaluates the history-only oracles (C01, C03, C14).
func (st *prodState) checkHistory() {
	s := st.s
	st.mu.Lock()
	defer st.mu.Unlock()
	for _, r := range st.recs {
		if r.promises != 1 {
			if r.promises == 0 {
				s.Violf("C01/promise/never", "record %s (%s) never had its promise called", r.val, r.kind)
			}
			continue
		}
		if r.kind != "sync" {
			if r.bufHook != 1 {
				s.Violf("C14/buffered-hook/count", "OnProduceRecordBuffered called %d times for %s", r.bufHook, r.val)
			}
			if r.unbufHook != 1 {
				s.Violf("C14/unbuffered-hook/count", "OnProduceRecordUnbuffered called %d times for %s (promise err=%v)", r.unbufHook, r.val, r.err)
			} else if !sameErr(r.unbufErr, r.err) {
				s.Violf("C14/unbuffered-hook/error", "OnProduceRecordUnbuffered error %v differs from promise error %v for %s", r.unbufErr, r.err, r.val)
			}
		} else {
			if r.bufHook != 1 || r.unbufHook != 1 {
				s.Violf("C14/hook/count-sync", "hooks buffered=%d unbuffered=%d for ProduceSync record %s", r.bufHook, r.unbufHook, r.val)
			}
		}
		if r.err == nil {
			s.Count("recs.acked", 1)
		} else {
			s.Count("recs.failed", 1)
			s.Count("recs.failed."+errClass(r.err), 1)
		}
	}
	s.Count("recs.total", int64(len(st.recs)))

	// C03 retrospective occupancy: records that were certainly accepted
	// (acked, or failed with an error that only arises after buffering) are
	// "in the buffer" from the return of their Produce call to their promise.
	type edge struct {
		seq   uint64
		delta int
		bytes int
		cl    string
	}
	var edges []edge
	for _, r := range st.recs {
		if r.kind == "sync" || r.promises != 1 || r.returnSeq == 0 {
			continue
		}
		if r.err != nil && !postAcceptErr(r.err) {
			continue
		}
		if r.promSeq < r.returnSeq {
			continue // promise ran before Produce returned
		}
		// a record counts until its promise has RUN, i.e. returned (a
		// promise that takes its time still holds the slot)
		end := r.promSeq
		if r.promEndSeq > end {
			end = r.promEndSeq
		}
		edges = append(edges, edge{r.returnSeq, +1, r.size + len(r.rec.Key), r.client}, edge{end, -1, r.size + len(r.rec.Key), r.client})
	}
	sort.Slice(edges, func(i, j int) bool { return edges[i].seq < edges[j].seq })
	occ := map[string]int{}
	occB := map[string]int{}
	var peak int
	for _, e := range edges {
		occ[e.cl] += e.delta
		occB[e.cl] += e.delta * e.bytes
		if occ[e.cl] > peak {
			peak = occ[e.cl]
		}
		if int64(occ[e.cl]) > st.maxRecs {
			s.Violf("C03/limit/records", "client %s held %d accepted unpromised records at event %d, MaxBufferedRecords=%d", e.cl, occ[e.cl], e.seq, st.maxRecs)
			break
		}
		if st.maxBytes > 0 && int64(occB[e.cl]) > st.maxBytes {
			s.Violf("C03/limit/bytes", "client %s held %d bytes of accepted unpromised records at event %d, MaxBufferedBytes=%d", e.cl, occB[e.cl], e.seq, st.maxBytes)
			break
		}
	}
	s.Max("buffer_peak", int64(peak))
	if int64(peak) >= st.maxRecs {
		s.Probe("buffer_limit_reached")
	}

	// C03 flush: nil return => every record whose Produce call returned
	// before the flush began and that was certainly accepted has been
	// promised before the flush returned.
	for _, f := range st.flushes {
		if !f.done {
			s.Violf("C03/hang/flush", "a Flush never returned")
			continue
		}
		if f.err != nil {
			s.Probe("flush_ctx_error")
			continue
		}
		s.Probe("flush_nil")
		for _, r := range st.recs {
			if r.client != f.client || r.kind == "sync" || r.returnSeq == 0 || r.returnSeq > f.invokeSeq {
				continue
			}
			if r.err != nil && !postAcceptErr(r.err) {
				continue
			}
			if r.promSeq == 0 || r.promSeq > f.returnSeq || r.promEndSeq > f.returnSeq {
				s.Violf("C03/flush/early-return", "Flush [%d,%d] returned nil but %s (produced at %d) was promised at %d", f.invokeSeq, f.returnSeq, r.val, r.returnSeq, r.promSeq)
				break
			}
		}
	}
}

func sameErr(a, b error) bool {
	if a == nil || b == nil {
		return a == nil && b == nil
	}
	return a.Error() == b.Error()
}

func errClass(err error) string {
	switch {
	case errors.Is(err, kgo.ErrMaxBuffered):
		return "max_buffered"
	case errors.Is(err, kgo.ErrClientClosed):
		return "client_closed"
	case errors.Is(err, kgo.ErrRecordTimeout):
		return "record_timeout"
	case errors.Is(err, kgo.ErrRecordRetries):
		return "record_retries"
	case errors.Is(err, kgo.ErrAborting):
		return "aborting"
	case errors.Is(err, context.Canceled):
		return "ctx_canceled"
	case errors.Is(err, context.DeadlineExceeded):
		return "ctx_deadline"
	}
	m := err.Error()
	if i := strings.IndexByte(m, ':'); i > 0 {
		m = m[:i]
	}
	if len(m) > 40 {
		m = m[:40]
	}
	m = strings.ReplaceAll(m, " ", "_")
	// numbers would make one counter per value
	var out []rune
	for _, r := range m {
		if r >= '0' && r <= '9' {
			if n := len(out); n > 0 && out[n-1] == '#' {
				continue
			}
			r = '#'
		}
		out = append(out, r)
	}
	return string(out)
}

// postAcceptErr reports whether err can only be given to a record that had
// been accepted into the buffer (as opposed to rejected at admission).
func postAcceptErr(err error) bool {
	return errors.Is(err, kgo.ErrRecordTimeout) || errors.Is(err, kgo.ErrRecordRetries)
}

// checkLogs evaluates C02 against the final raw log.
func (st *prodState) checkLogs(admin *RawCli, topics []string, nparts int32) {
	s := st.s
	p := s.P
	if p.Knob("disable_idem", 0) != 0 {
		return
	}
	all := append([]string(nil), topics...)
	if s.stats["env.create_topic"] > 0 {
		all = append(all, "late")
	}
	deleted := map[string]bool{}
	for _, ev := range p.Events {
		if ev.Kind == "delete_topic" {
			deleted[topicName(ev.A)] = true
		}
	}
	type key struct {
		t string
		p int32
	}
	logs := map[key]*RefLog{}
	for _, t := range all {
		if deleted[t] {
			continue
		}
		for part := int32(0); part < nparts; part++ {
			l, err := admin.ReadLog(t, part)
			if err != nil {
				s.mu.Lock()
				s.stats["infra.readlog_fail"]++
				s.mu.Unlock()
				s.Logf("ReadLog %s/%d failed: %v", t, part, err)
				continue
			}
			logs[key{t, part}] = l
			prev := int64(-1)
			for _, b := range l.Batches {
				if !b.CRCOk {
					s.Violf("C18/log/crc", "batch at %s/%d offset %d has a bad CRC", t, part, b.BaseOffset)
				}
				if b.BaseOffset <= prev {
					s.Violf("C32/log/offsets", "batch offsets not increasing at %s/%d: %d after %d", t, part, b.BaseOffset, prev)
				}
				prev = b.LastOffset()
			}
		}
	}
	st.mu.Lock()
	defer st.mu.Unlock()
	occ := map[key]map[string][]int64{}
	for k, l := range logs {
		m := map[string][]int64{}
		for _, r := range l.Records {
			v := string(r.Value)
			m[v] = append(m[v], r.Offset)
			if st.byVal[v] == nil {
				s.Violf("C02/log/unknown-record", "log %s/%d offset %d holds a value nobody produced: %.40q", k.t, k.p, r.Offset, v)
			}
		}
		occ[k] = m
	}
	allowCancel := p.Knob("allow_cancel", 0) != 0
	// AllowIdempotentProduceCancellation is judged as a separate
	// configuration: the absent-if-failed clause is off (property text) and
	// the remaining clauses are reported under their own class prefix.
	pfx := "C02/"
	if allowCancel {
		pfx = "C02/allow-cancel/"
	}
	lastOff := map[string]int64{} // (client,actor,topic,part) -> last acked offset
	for _, r := range st.recs {
		if r.promises != 1 {
			continue
		}
		k := key{r.topic, r.part}
		l := logs[k]
		if l == nil {
			if r.err == nil && !deleted[r.topic] && r.topic != "nope" && !(r.topic == "late" && s.stats["env.create_topic"] == 0) {
				if s.stats["infra.readlog_fail"] == 0 {
					s.Violf(pfx+"acked/no-log", "record %s acked at %s/%d offset %d but that partition has no log", r.val, r.topic, r.part, r.off)
				}
			}
			continue
		}
		offs := occ[k][r.val]
		// also look for it in other partitions
		if r.err == nil {
			switch {
			case len(offs) == 0:
				s.Violf(pfx+"acked/missing", "record %s acked at %s/%d offset %d is not in the log", r.val, r.topic, r.part, r.off)
			case len(offs) > 1:
				s.Violf(pfx+"acked/duplicate", "record %s acked at offset %d appears %d times in %s/%d: %v", r.val, r.off, len(offs), r.topic, r.part, offs)
			case offs[0] != r.off:
				s.Violf(pfx+"acked/wrong-offset", "record %s acked at offset %d is at offset %d in %s/%d", r.val, r.off, offs[0], r.topic, r.part)
			}
			ak := fmt.Sprintf("%s/%d/%s/%d", r.client, r.actor, r.topic, r.part)
			if last, ok := lastOff[ak]; ok && r.off <= last && len(offs) == 1 {
				s.Violf(pfx+"acked/order", "record %s (produce index %d) acked at offset %d, not after the previous acked record of the same caller at %d in %s/%d", r.val, r.idx, r.off, last, r.topic, r.part)
			}
			lastOff[ak] = r.off
		} else {
			if len(offs) > 1 {
				s.Violf(pfx+"failed/duplicate", "failed record %s appears %d times in %s/%d", r.val, len(offs), r.topic, r.part)
			}
			if len(offs) > 0 && !allowCancel {
				if errors.Is(r.err, kgo.ErrClientClosed) || r.afterClose || st.closingBefore(r) {
					s.Probe("failed_by_close_but_written")
					continue
				}
				if strings.Contains(r.err.Error(), "purged") || errors.Is(r.err, kgo.ErrAborting) {
					s.Probe("failed_by_purge_or_abort_but_written")
					continue
				}
				s.Violf("C02/failed-but-written/"+errClass(r.err), "record %s failed with %q but is in the log of %s/%d at offset %v", r.val, r.err, r.topic, r.part, offs)
			}
		}
	}
}

func (st *prodState) closingBefore(r *prec) bool {
	seq, ok := st.closing[r.client]
	return ok && seq < r.promSeq
}
