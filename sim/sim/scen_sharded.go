package sim

import (
	"context"
	"fmt"
	"reflect"
	"sort"
	"strings"
	"sync"
	"time"

	"github.com/twmb/franz-go/pkg/kfake"
	"github.com/twmb/franz-go/pkg/kgo"
	"github.com/twmb/franz-go/pkg/kmsg"

	"verifsim/plan"
)

func init() { Scenarios["sharded"] = scenSharded }

// Scenario sharded (C23): application goroutines issue requests of the kinds
// the client splits across brokers, with generated item sets (known and
// unknown topics, partitions beyond the end, existing and non-existing
// groups and transactional ids, now and then a duplicate), through
// RequestSharded (the shards are judged) and Request (the merged response is
// judged), while partition leaders move, coordinators are rehashed and single
// shards are answered with retriable errors or lose their connection.
//
// Items are written "topic/partition", "group", "txn-id", "key",
// "type:resource".

// tpItems collects "topic/partition" from any request or response value with
// a Topics slice whose elements have Topic and Partitions (int32 or structs
// with a Partition field).
func tpItems(v reflect.Value, prefix string, out *[]string) {
	for v.Kind() == reflect.Pointer || v.Kind() == reflect.Interface {
		if v.IsNil() {
			return
		}
		v = v.Elem()
	}
	if v.Kind() != reflect.Struct {
		return
	}
	ts := v.FieldByName("Topics")
	if !ts.IsValid() || ts.Kind() != reflect.Slice {
		return
	}
	for i := 0; i < ts.Len(); i++ {
		t := ts.Index(i)
		name := ""
		if f := t.FieldByName("Topic"); f.IsValid() {
			if f.Kind() == reflect.String {
				name = f.String()
			} else if f.Kind() == reflect.Pointer && !f.IsNil() {
				name = f.Elem().String()
			}
		}
		ps := t.FieldByName("Partitions")
		if !ps.IsValid() {
			continue
		}
		for j := 0; j < ps.Len(); j++ {
			p := ps.Index(j)
			var n int64
			if p.Kind() == reflect.Int32 {
				n = p.Int()
			} else if f := p.FieldByName("Partition"); f.IsValid() {
				n = f.Int()
			}
			*out = append(*out, fmt.Sprintf("%s%s/%d", prefix, name, n))
		}
	}
}

func strField(v reflect.Value, names ...string) []string {
	for v.Kind() == reflect.Pointer || v.Kind() == reflect.Interface {
		if v.IsNil() {
			return nil
		}
		v = v.Elem()
	}
	for _, n := range names {
		f := v.FieldByName(n)
		if !f.IsValid() {
			continue
		}
		var out []string
		switch {
		case f.Kind() == reflect.Slice && f.Type().Elem().Kind() == reflect.String:
			for i := 0; i < f.Len(); i++ {
				out = append(out, f.Index(i).String())
			}
			return out
		}
	}
	return nil
}

// shardItems returns the items a request or a response names.
func shardItems(m any) []string {
	var out []string
	v := reflect.ValueOf(m)
	switch r := m.(type) {
	case *kmsg.ListOffsetsRequest, *kmsg.ListOffsetsResponse, *kmsg.DeleteRecordsRequest, *kmsg.DeleteRecordsResponse,
		*kmsg.OffsetForLeaderEpochRequest, *kmsg.OffsetForLeaderEpochResponse, *kmsg.DescribeProducersRequest, *kmsg.DescribeProducersResponse:
		tpItems(v, "", &out)
	case *kmsg.DescribeGroupsRequest:
		out = append(out, r.Groups...)
	case *kmsg.DescribeGroupsResponse:
		for _, g := range r.Groups {
			out = append(out, g.Group)
		}
	case *kmsg.DeleteGroupsRequest:
		out = append(out, r.Groups...)
	case *kmsg.DeleteGroupsResponse:
		for _, g := range r.Groups {
			out = append(out, g.Group)
		}
	case *kmsg.ConsumerGroupDescribeRequest:
		out = append(out, r.Groups...)
	case *kmsg.ConsumerGroupDescribeResponse:
		for _, g := range r.Groups {
			out = append(out, g.Group)
		}
	case *kmsg.ShareGroupDescribeRequest:
		out = append(out, r.GroupIDs...)
	case *kmsg.ShareGroupDescribeResponse:
		for _, g := range r.Groups {
			out = append(out, g.GroupID)
		}
	case *kmsg.DescribeTransactionsRequest:
		out = append(out, r.TransactionalIDs...)
	case *kmsg.DescribeTransactionsResponse:
		for _, g := range r.TransactionStates {
			out = append(out, g.TransactionalID)
		}
	case *kmsg.FindCoordinatorRequest:
		if len(r.CoordinatorKeys) > 0 {
			out = append(out, r.CoordinatorKeys...)
		} else {
			out = append(out, r.CoordinatorKey)
		}
	case *kmsg.FindCoordinatorResponse:
		for _, c := range r.Coordinators {
			out = append(out, c.Key)
		}
	case *kmsg.OffsetFetchRequest:
		if len(r.Groups) > 0 {
			for _, g := range r.Groups {
				out = append(out, g.Group)
			}
		} else {
			out = append(out, r.Group)
		}
	case *kmsg.OffsetFetchResponse:
		for _, g := range r.Groups {
			out = append(out, g.Group)
		}
	case *kmsg.DescribeConfigsRequest:
		for _, x := range r.Resources {
			out = append(out, fmt.Sprintf("%d:%s", x.ResourceType, x.ResourceName))
		}
	case *kmsg.DescribeConfigsResponse:
		for _, x := range r.Resources {
			out = append(out, fmt.Sprintf("%d:%s", x.ResourceType, x.ResourceName))
		}
	case *kmsg.DescribeShareGroupOffsetsRequest:
		for _, g := range r.Groups {
			out = append(out, g.GroupID)
		}
	case *kmsg.DescribeShareGroupOffsetsResponse:
		for _, g := range r.Groups {
			out = append(out, g.GroupID)
		}
	}
	sort.Strings(out)
	return out
}

func multiset(xs []string) map[string]int {
	m := map[string]int{}
	for _, x := range xs {
		m[x]++
	}
	return m
}

// fabricateMore builds an error response for the request kinds only the
// sharded scenario injects errors into (the others are in fabricate).
func fabricateMore(req kmsg.Request, code int16) kmsg.Response {
	switch r := req.(type) {
	case *kmsg.DescribeGroupsRequest:
		resp := r.ResponseKind().(*kmsg.DescribeGroupsResponse)
		for _, g := range r.Groups {
			rg := kmsg.NewDescribeGroupsResponseGroup()
			rg.Group, rg.ErrorCode = g, code
			resp.Groups = append(resp.Groups, rg)
		}
		return resp
	case *kmsg.ConsumerGroupDescribeRequest:
		resp := r.ResponseKind().(*kmsg.ConsumerGroupDescribeResponse)
		for _, g := range r.Groups {
			rg := kmsg.NewConsumerGroupDescribeResponseGroup()
			rg.Group, rg.ErrorCode = g, code
			resp.Groups = append(resp.Groups, rg)
		}
		return resp
	case *kmsg.DeleteGroupsRequest:
		resp := r.ResponseKind().(*kmsg.DeleteGroupsResponse)
		for _, g := range r.Groups {
			rg := kmsg.NewDeleteGroupsResponseGroup()
			rg.Group, rg.ErrorCode = g, code
			resp.Groups = append(resp.Groups, rg)
		}
		return resp
	case *kmsg.DescribeTransactionsRequest:
		resp := r.ResponseKind().(*kmsg.DescribeTransactionsResponse)
		for _, g := range r.TransactionalIDs {
			rg := kmsg.NewDescribeTransactionsResponseTransactionState()
			rg.TransactionalID, rg.ErrorCode = g, code
			resp.TransactionStates = append(resp.TransactionStates, rg)
		}
		return resp
	case *kmsg.DeleteRecordsRequest:
		resp := r.ResponseKind().(*kmsg.DeleteRecordsResponse)
		for _, t := range r.Topics {
			rt := kmsg.NewDeleteRecordsResponseTopic()
			rt.Topic = t.Topic
			for _, p := range t.Partitions {
				rp := kmsg.NewDeleteRecordsResponseTopicPartition()
				rp.Partition, rp.ErrorCode, rp.LowWatermark = p.Partition, code, -1
				rt.Partitions = append(rt.Partitions, rp)
			}
			resp.Topics = append(resp.Topics, rt)
		}
		return resp
	case *kmsg.OffsetForLeaderEpochRequest:
		resp := r.ResponseKind().(*kmsg.OffsetForLeaderEpochResponse)
		for _, t := range r.Topics {
			rt := kmsg.NewOffsetForLeaderEpochResponseTopic()
			rt.Topic = t.Topic
			for _, p := range t.Partitions {
				rp := kmsg.NewOffsetForLeaderEpochResponseTopicPartition()
				rp.Partition, rp.ErrorCode, rp.LeaderEpoch, rp.EndOffset = p.Partition, code, -1, -1
				rt.Partitions = append(rt.Partitions, rp)
			}
			resp.Topics = append(resp.Topics, rt)
		}
		return resp
	case *kmsg.DescribeProducersRequest:
		resp := r.ResponseKind().(*kmsg.DescribeProducersResponse)
		for _, t := range r.Topics {
			rt := kmsg.NewDescribeProducersResponseTopic()
			rt.Topic = t.Topic
			for _, p := range t.Partitions {
				rp := kmsg.NewDescribeProducersResponseTopicPartition()
				rp.Partition, rp.ErrorCode = p, code
				rt.Partitions = append(rt.Partitions, rp)
			}
			resp.Topics = append(resp.Topics, rt)
		}
		return resp
	}
	return nil
}

type shardCall struct {
	name    string
	kind    string
	req     kmsg.Request
	want    []string
	sharded bool
}

// buildShardReq makes the request of one op. A: kind, B: item-selection seed.
func buildShardReq(p *plan.Plan, op plan.Op, nb int) (string, kmsg.Request) {
	x := mix64(uint64(op.B)*0x9e3779b97f4a7c15 + 12345)
	next := func(n int) int {
		x = mix64(x + 0x632be59bd9b4e019)
		return int(x % uint64(n))
	}
	ntopics := int(p.Knob("ntopics", 3))
	nparts := int(p.Knob("nparts", 4))
	dup := p.Knob("dups", 0) != 0 && next(100) < 25
	type tp struct {
		t string
		p int32
	}
	pickTPs := func() map[string][]int32 {
		m := map[string][]int32{}
		n := 1 + next(8)
		var last tp
		for i := 0; i < n; i++ {
			t := fmt.Sprintf("t%d", next(ntopics))
			switch next(12) {
			case 0:
				t = "unknown-" + fmt.Sprint(next(2))
			}
			pp := int32(next(nparts))
			if next(15) == 0 {
				pp = int32(nparts + next(3)) // beyond the end
			}
			last = tp{t, pp}
			seen := false
			for _, q := range m[t] {
				if q == pp {
					seen = true
				}
			}
			if !seen {
				m[t] = append(m[t], pp)
			}
		}
		if dup {
			m[last.t] = append(m[last.t], last.p)
		}
		return m
	}
	pickNames := func(prefix string, universe int) []string {
		n := 1 + next(6)
		var out []string
		seen := map[string]bool{}
		for i := 0; i < n; i++ {
			g := fmt.Sprintf("%s%d", prefix, next(universe))
			if !seen[g] {
				seen[g] = true
				out = append(out, g)
			}
		}
		if dup {
			out = append(out, out[len(out)-1])
		}
		return out
	}
	sortedTopics := func(m map[string][]int32) []string {
		var ts []string
		for t := range m {
			ts = append(ts, t)
		}
		sort.Strings(ts)
		return ts
	}
	switch op.A {
	case 0:
		r := kmsg.NewPtrListOffsetsRequest()
		r.ReplicaID = -1
		m := pickTPs()
		for _, t := range sortedTopics(m) {
			rt := kmsg.NewListOffsetsRequestTopic()
			rt.Topic = t
			for _, q := range m[t] {
				rp := kmsg.NewListOffsetsRequestTopicPartition()
				rp.Partition, rp.Timestamp, rp.CurrentLeaderEpoch = q, int64(-1-next(2)), -1
				rt.Partitions = append(rt.Partitions, rp)
			}
			r.Topics = append(r.Topics, rt)
		}
		return "ListOffsets", r
	case 1:
		r := kmsg.NewPtrOffsetFetchRequest()
		gs := pickNames("g", 8)
		if next(3) == 0 {
			// the classic single-group form
			r.Group = gs[0]
			rt := kmsg.NewOffsetFetchRequestTopic()
			rt.Topic = "t0"
			rt.Partitions = []int32{0, 1}
			r.Topics = append(r.Topics, rt)
			return "OffsetFetch(classic)", r
		}
		for _, g := range gs {
			rg := kmsg.NewOffsetFetchRequestGroup()
			rg.Group = g
			if next(2) == 0 {
				rt := kmsg.NewOffsetFetchRequestGroupTopic()
				rt.Topic = "t0"
				rt.Partitions = []int32{0, 1}
				rg.Topics = append(rg.Topics, rt)
			}
			r.Groups = append(r.Groups, rg)
		}
		return "OffsetFetch", r
	case 2:
		r := kmsg.NewPtrFindCoordinatorRequest()
		r.CoordinatorType = int8(next(2))
		r.CoordinatorKeys = pickNames("g", 10)
		if r.CoordinatorType == 1 {
			r.CoordinatorKeys = pickNames("x", 6)
		}
		return "FindCoordinator", r
	case 3:
		r := kmsg.NewPtrDescribeGroupsRequest()
		r.Groups = pickNames("g", 10)
		return "DescribeGroups", r
	case 4:
		r := kmsg.NewPtrDeleteRecordsRequest()
		r.TimeoutMillis = 3000
		m := pickTPs()
		for _, t := range sortedTopics(m) {
			rt := kmsg.NewDeleteRecordsRequestTopic()
			rt.Topic = t
			for _, q := range m[t] {
				rp := kmsg.NewDeleteRecordsRequestTopicPartition()
				rp.Partition, rp.Offset = q, 0
				rt.Partitions = append(rt.Partitions, rp)
			}
			r.Topics = append(r.Topics, rt)
		}
		return "DeleteRecords", r
	case 5:
		r := kmsg.NewPtrOffsetForLeaderEpochRequest()
		r.ReplicaID = -1
		m := pickTPs()
		for _, t := range sortedTopics(m) {
			rt := kmsg.NewOffsetForLeaderEpochRequestTopic()
			rt.Topic = t
			for _, q := range m[t] {
				rp := kmsg.NewOffsetForLeaderEpochRequestTopicPartition()
				rp.Partition, rp.CurrentLeaderEpoch, rp.LeaderEpoch = q, -1, 0
				rt.Partitions = append(rt.Partitions, rp)
			}
			r.Topics = append(r.Topics, rt)
		}
		return "OffsetForLeaderEpoch", r
	case 6:
		r := kmsg.NewPtrDescribeProducersRequest()
		m := pickTPs()
		for _, t := range sortedTopics(m) {
			rt := kmsg.NewDescribeProducersRequestTopic()
			rt.Topic = t
			rt.Partitions = m[t]
			r.Topics = append(r.Topics, rt)
		}
		return "DescribeProducers", r
	case 7:
		r := kmsg.NewPtrDescribeTransactionsRequest()
		r.TransactionalIDs = pickNames("x", 6)
		return "DescribeTransactions", r
	case 8:
		r := kmsg.NewPtrConsumerGroupDescribeRequest()
		r.Groups = pickNames("g", 10)
		return "ConsumerGroupDescribe", r
	case 9:
		r := kmsg.NewPtrDeleteGroupsRequest()
		r.Groups = pickNames("gone", 6)
		return "DeleteGroups", r
	case 10:
		r := kmsg.NewPtrShareGroupDescribeRequest()
		r.GroupIDs = pickNames("sg", 6)
		return "ShareGroupDescribe", r
	case 11:
		r := kmsg.NewPtrDescribeConfigsRequest()
		n := 1 + next(5)
		seen := map[string]bool{}
		for i := 0; i < n; i++ {
			rr := kmsg.NewDescribeConfigsRequestResource()
			if next(2) == 0 {
				rr.ResourceType, rr.ResourceName = kmsg.ConfigResourceTypeBroker, fmt.Sprint(next(nb))
			} else {
				rr.ResourceType, rr.ResourceName = kmsg.ConfigResourceTypeTopic, fmt.Sprintf("t%d", next(ntopics))
			}
			k := fmt.Sprintf("%d:%s", rr.ResourceType, rr.ResourceName)
			if !seen[k] {
				seen[k] = true
				r.Resources = append(r.Resources, rr)
			}
		}
		return "DescribeConfigs", r
	case 12:
		return "ListGroups", kmsg.NewPtrListGroupsRequest()
	default:
		return "ListTransactions", kmsg.NewPtrListTransactionsRequest()
	}
}

func scenSharded(s *Sim) {
	p := s.P
	nb := int(p.Knob("nbroker", 3))
	ntopics := int(p.Knob("ntopics", 3))
	nparts := int32(p.Knob("nparts", 4))
	var topics []string
	for i := 0; i < ntopics; i++ {
		topics = append(topics, fmt.Sprintf("t%d", i))
	}
	s.StartCluster(nb, kfake.SeedTopics(nparts, topics...))
	cl := s.Client("s0", kgo.RequestRetries(int(p.Knob("request_retries", 6))))

	// some groups and transactional ids exist
	setup, cancel := context.WithTimeout(context.Background(), 30*time.Second)
	for i := 0; i < int(p.Knob("ngroups", 4)); i++ {
		r := kmsg.NewPtrOffsetCommitRequest()
		r.Group, r.Generation = fmt.Sprintf("g%d", i), -1
		rt := kmsg.NewOffsetCommitRequestTopic()
		rt.Topic = "t0"
		rp := kmsg.NewOffsetCommitRequestTopicPartition()
		rp.Partition, rp.Offset = 0, int64(i)
		rt.Partitions = append(rt.Partitions, rp)
		r.Topics = append(r.Topics, rt)
		r.RequestWith(setup, cl)
	}
	for i := 0; i < int(p.Knob("ntxn", 2)); i++ {
		r := kmsg.NewPtrInitProducerIDRequest()
		id := fmt.Sprintf("x%d", i)
		r.TransactionalID = &id
		r.TransactionTimeoutMillis = 60000
		r.ProducerID, r.ProducerEpoch = -1, -1
		r.RequestWith(setup, cl)
	}
	cancel()

	for _, ev := range p.Events {
		ev := ev
		s.At(time.Duration(ev.AtMs)*time.Millisecond, func() {
			switch ev.Kind {
			case "move":
				produceEnvEvent(s, nil, ev, nb, nparts)
			case "shuffle":
				s.Cluster.ShufflePartitionLeaders()
				s.Count("env.shuffle", 1)
			case "rehash":
				s.Cluster.RehashCoordinators()
				s.Count("env.rehash", 1)
			}
		})
	}
	s.ScheduleTimedFaults()
	// moves and rehashes triggered by the n-th request of a kind: between
	// split and issue, or between a failed shard and its re-split
	if n := int(p.Knob("move_on_nth_req", 0)); n > 0 {
		seen := 0
		s.OnReq = append(s.OnReq, func(r *WireReq) {
			if r.Conn.Client != "s0" || r.Key == 18 || r.Key == 3 {
				return
			}
			if seen++; seen%n == 0 {
				if seen/n%2 == 0 {
					s.Cluster.ShufflePartitionLeaders()
					s.Count("env.shuffle", 1)
				} else {
					s.Cluster.RehashCoordinators()
					s.Count("env.rehash", 1)
				}
			}
		})
	}

	var mu sync.Mutex
	judge := func(c *shardCall, shards []kgo.ResponseShard, merged kmsg.Response, err error) {
		mu.Lock()
		defer mu.Unlock()
		want := multiset(c.want)
		dups := false
		for _, n := range want {
			if n > 1 {
				dups = true
			}
		}
		s.Count("calls."+c.kind, 1)
		if c.sharded {
			if len(c.want) == 0 {
				// broker-wide kinds: one shard per broker, each broker once
				seen := map[int32]int{}
				for _, sh := range shards {
					seen[sh.Meta.NodeID]++
					if sh.Resp == nil && sh.Err == nil {
						s.Violf("C23/shard/no-outcome", "%s: a shard for broker %d has neither response nor error", c.name, sh.Meta.NodeID)
					}
				}
				for b, n := range seen {
					if n > 1 {
						s.Violf("C23/shard/broker-twice", "%s (%s): broker %d appears in %d shards", c.name, c.kind, b, n)
					}
				}
				return
			}
			got := map[string]int{}
			nerr := 0
			for _, sh := range shards {
				if sh.Resp == nil && sh.Err == nil {
					s.Violf("C23/shard/no-outcome", "%s: a shard has neither response nor error (request items %v)", c.name, shardItems(sh.Req))
				}
				if sh.Err != nil {
					nerr++
				}
				for _, it := range shardItems(sh.Req) {
					got[it]++
				}
				if sh.Err == nil && sh.Resp != nil {
					// what the broker answered for this piece
					ri, rq := multiset(shardItems(sh.Resp)), multiset(shardItems(sh.Req))
					for it, n := range rq {
						if ri[it] < 1 || (!dups && ri[it] != n) {
							s.Count("probe.shard_response_item_count_differs", 1)
							break
						}
					}
				}
			}
			if nerr > 0 {
				s.Count("probe.error_shards", int64(nerr))
			}
			for it, n := range want {
				switch {
				case got[it] == 0:
					s.Violf("C23/shard/item-missing", "%s (%s): requested item %q is in no returned shard; shards hold %v", c.name, c.kind, it, got)
				case got[it] > n:
					s.Violf("C23/shard/item-twice", "%s (%s): requested item %q (requested %d time(s)) is in %d shards/pieces; shards hold %v", c.name, c.kind, it, n, got[it], got)
				}
			}
			for it := range got {
				if want[it] == 0 {
					s.Violf("C23/shard/item-foreign", "%s (%s): shards hold item %q that was not requested (%v)", c.name, c.kind, it, c.want)
				}
			}
			return
		}
		if err != nil {
			s.Count("probe.merged_call_error", 1)
			return
		}
		if merged == nil {
			s.Violf("C23/merged/no-outcome", "%s (%s): Request returned neither response nor error", c.name, c.kind)
			return
		}
		if len(c.want) == 0 {
			return
		}
		got := multiset(shardItems(merged))
		// the classic single-group OffsetFetch answers at the top level
		if of, ok := merged.(*kmsg.OffsetFetchResponse); ok && c.kind == "OffsetFetch(classic)" {
			if len(of.Groups) > 1 {
				s.Violf("C23/merged/item-twice", "%s: merged single-group OffsetFetch response holds %d groups: %v", c.name, len(of.Groups), shardItems(merged))
			}
			if of.ErrorCode == 0 && len(of.Topics) == 0 {
				s.Violf("C23/merged/item-missing", "%s: merged single-group OffsetFetch response has no error and no topics although two partitions of t0 were requested", c.name)
			}
			return
		}
		for it, n := range want {
			switch {
			case got[it] == 0:
				s.Violf("C23/merged/item-missing", "%s (%s): requested item %q is not in the merged response %v", c.name, c.kind, it, shardItems(merged))
			case got[it] > n:
				s.Violf("C23/merged/item-twice", "%s (%s): requested item %q is %d times in the merged response %v", c.name, c.kind, it, got[it], shardItems(merged))
			}
		}
		for it := range got {
			if want[it] == 0 && !strings.HasPrefix(c.kind, "DescribeConfigs") {
				s.Violf("C23/merged/item-foreign", "%s (%s): merged response holds item %q that was not requested", c.name, c.kind, it)
			}
		}
	}

	for _, a := range p.Actors {
		a := a
		s.Go(func() {
			for i, op := range a.Ops {
				switch op.Kind {
				case "sleep":
					time.Sleep(time.Duration(op.A) * time.Millisecond)
				case "req":
					kind, req := buildShardReq(p, op, nb)
					c := &shardCall{name: fmt.Sprintf("%s#%d", a.Name, i), kind: kind, req: req, want: shardItems(req), sharded: op.C != 0}
					ctx, cancel := context.WithTimeout(context.Background(), 60*time.Second)
					if c.sharded {
						shards := cl.RequestSharded(ctx, req)
						judge(c, shards, nil, nil)
					} else {
						resp, err := cl.Request(ctx, req)
						judge(c, nil, resp, err)
					}
					cancel()
				}
			}
		})
	}
	if !s.WaitActors(time.Duration(p.Knob("fault_phase_ms", 60000)) * time.Millisecond) {
		s.Heal()
		if !s.WaitActors(5 * time.Minute) {
			s.Violf("C23/hang", "sharded request calls have not returned 5m after the faults were healed\n%s", goroutineDump("kgo"))
		}
	}
	s.Count("nontrivial", 1)
}
