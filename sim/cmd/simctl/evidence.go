package main

import (
	"encoding/json"
	"fmt"
	"os"
	"path/filepath"
	"sort"
	"strings"
)

func writeEvidence(prop, tier string, seed uint64, cfg propCfg, a *agg, b *buildOut, wall, buildS float64, newViol, knownViol int, exhaustive, adhoc bool) {
	faults := map[string]int64{}
	probes := map[string]int64{}
	other := map[string]int64{}
	for k, v := range a.stats {
		switch {
		case strings.HasPrefix(k, "fault.") || strings.HasPrefix(k, "env."):
			faults[k] = v
		case strings.HasPrefix(k, "probe."):
			probes[k] = v
		default:
			other[k] = v
		}
	}
	runWall := wall - buildS
	if runWall < 0.001 {
		runWall = 0.001
	}
	samples := a.samples
	if len(samples) == 0 {
		samples = []any{"no judged run"}
	}
	var zeroProbes []string
	for _, p := range expectedProbes[prop] {
		if probes["probe."+p] == 0 {
			zeroProbes = append(zeroProbes, p)
		}
	}
	sort.Strings(zeroProbes)
	cov := map[string]any{
		"evaluations":         a.runs,
		"distinct_nontrivial": len(a.nontriv),
		"rule": "plans are generated from VERIF_SEED by the property's generator (knobs, actor scripts, fault rules, environment events, scheduler seed) and each is executed once in a fresh process; " +
			"two runs are distinct when their (wire-trace hash, yield-trace hash) differ; a run is non-trivial when more than 5 request frames were delivered (or the scenario-specific work counter is positive)",
		"samples":                 samples,
		"exhaustive":              exhaustive,
		"runs_per_hour":           int(float64(a.runs) / runWall * 3600),
		"simulated_seconds":       a.stats["sim_ms"] / 1000,
		"faults_fired":            faults,
		"reach_probes":            probes,
		"probes_at_zero":          zeroProbes,
		"counters":                other,
		"distinct_traces":         len(a.traces),
		"fault_free_runs":         a.faultFree,
		"faulted_runs":            a.faulted,
		"out_of_scope_runs":       a.oos,
		"out_of_scope_reasons":    a.oosWhy,
		"infrastructure_failures": a.infra,
		"determinism_rechecks":    map[string]int{"reran": a.dupCheck, "mismatch": a.dupBad},
		"yield_sites":             b.sites,
		"yields_taken":            a.stats["yields"],
		"other_property_classes":  a.other,
		"known_finding_hits":      knownViol,
		"components": map[string]string{
			"pkg/kgo":   "real code, yield-instrumented copy of /repo's current tree",
			"pkg/kfake": "real code (broker)",
			"pkg/kmsg":  "real code (also used by the wire monitor)",
			"network":   "simulated (SimNet: frame-level delivery, latency, faults)",
			"clock":     "simulated (testing/synctest fake clock)",
			"scheduler": "Go runtime with seeded run-queue/select/timer choices, single P, seeded yields",
			"disk":      "simulated only in C33 (CrashFS); unused elsewhere",
			"stubs":     "none",
		},
	}
	ev := map[string]any{
		"property_id": prop,
		"tier":        tier,
		"seed":        seed,
		"level":       cfg.level,
		"coverage":    cov,
		"assumptions": []string{
			"the broker is kfake (this repository's in-process cluster); faults are limited to what a real deployment produces",
			"preemption is explored at synchronisation operations (yield sites), not at every instruction",
			"a clean batch is evidence, not proof: schedules and fault sequences are sampled",
		},
		"wall_s":     wall,
		"violations": newViol,
	}
	dir := filepath.Join(verifDir, "evidence")
	if adhoc {
		// --runs/--seconds experiments never overwrite the registered command's evidence
		dir = filepath.Join(verifDir, "evidence", "adhoc")
	}
	os.MkdirAll(dir, 0o755)
	out, err := json.MarshalIndent(ev, "", " ")
	if err != nil {
		fatal2("evidence: %v", err)
	}
	if err := os.WriteFile(filepath.Join(dir, prop+".json"), out, 0o644); err != nil {
		fatal2("evidence: %v", err)
	}
	if len(zeroProbes) > 0 {
		fmt.Printf("note: reach probes at zero in this run: %v\n", zeroProbes)
	}
}

// expectedProbes lists the rare conditions each property cares about; a
// probe stuck at zero is reported in the evidence.
var expectedProbes = map[string][]string{}
