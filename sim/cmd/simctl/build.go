package main

import (
	"encoding/json"
	"fmt"
	"os"
	"os/exec"
	"path/filepath"
	"sort"
	"strconv"
	"strings"

	"verifsim/internal/rtoverlay"
	"verifsim/internal/yieldgen"
)

const (
	verifDir = "/verif"
	simDir   = "/verif/sim"
)

// repoDir is the tree under test: /repo, or (VERIF_REPO, used only by
// tools/seedtest.sh for deliberately broken scratch worktrees) another
// checkout of it.
var repoDir = func() string {
	if d := os.Getenv("VERIF_REPO"); d != "" {
		return d
	}
	return "/repo"
}()

func goEnv() []string {
	env := os.Environ()
	out := env[:0:0]
	for _, e := range env {
		if strings.HasPrefix(e, "GOFLAGS=") || strings.HasPrefix(e, "GOPROXY=") || strings.HasPrefix(e, "GOSUMDB=") || strings.HasPrefix(e, "GOTOOLCHAIN=") || strings.HasPrefix(e, "GOMAXPROCS=") {
			continue
		}
		out = append(out, e)
	}
	return append(out, "GOFLAGS=-mod=mod", "GOPROXY=off", "GOSUMDB=off", "GOTOOLCHAIN=local")
}

func goBin() string {
	if p, err := exec.LookPath("go1.26.8"); err == nil {
		return p
	}
	return "/opt/veriftools/go1.26.8/bin/go"
}

func scratchDir() string {
	home, _ := os.UserHomeDir()
	if home == "" {
		home = "/root"
	}
	return filepath.Join(home, ".cache", "verif-scratch", fmt.Sprintf("%010d", os.Getpid())) // fixed width: path lengths reach the child (argv, env) and must not vary
}

// mergeGoSum makes sure the harness module's go.sum covers the repository's
// modules (no network: sums come from the repo's own go.sum files).
func mergeGoSum() error {
	lines := map[string]bool{}
	for _, f := range []string{filepath.Join(simDir, "go.sum"), filepath.Join(repoDir, "go.sum"), filepath.Join(repoDir, "pkg/kfake/go.sum")} {
		b, err := os.ReadFile(f)
		if err != nil {
			continue
		}
		for _, l := range strings.Split(string(b), "\n") {
			if strings.TrimSpace(l) != "" {
				lines[l] = true
			}
		}
	}
	var all []string
	for l := range lines {
		all = append(all, l)
	}
	sort.Strings(all)
	want := strings.Join(all, "\n") + "\n"
	if cur, _ := os.ReadFile(filepath.Join(simDir, "go.sum")); string(cur) == want {
		return nil
	}
	return os.WriteFile(filepath.Join(simDir, "go.sum"), []byte(want), 0o644)
}

type buildOut struct {
	bin     string
	scratch string
	sites   int
	threads int // usual number of OS threads at start of a child (0 = unknown)
}

// calibrateThreads asks a few probe children how many OS threads the runtime
// created during start-up and returns the most frequent answer.
func calibrateThreads(bin string) int {
	counts := map[int]int{}
	for i := 0; i < 9; i++ {
		cmd := exec.Command(bin, "-test.run", "^TestSim$")
		cmd.Env = []string{"GOMAXPROCS=1", "GOGC=off", "GODEBUG=asyncpreemptoff=1,randautoseed=0,randseednop=0,updatemaxprocs=0", "VERIF_PROBE_THREADS=1"}
		out, err := cmd.Output()
		if err != nil {
			continue
		}
		var n int
		for _, l := range strings.Split(string(out), "\n") {
			if strings.HasPrefix(l, "threads=") {
				fmt.Sscanf(l, "threads=%d", &n)
			}
		}
		if n > 0 {
			counts[n]++
		}
	}
	best, bestN := 0, 0
	for n, c := range counts {
		if c > bestN || (c == bestN && n < best) {
			best, bestN = n, c
		}
	}
	return best
}

// build regenerates both overlays (runtime patches from the installed
// toolchain, yield instrumentation from /repo's CURRENT working tree) and
// builds the simulation binary. Any failure here is infrastructure (exit 2).
func build(race bool, yields bool) (*buildOut, error) {
	sweepScratch()
	sc := scratchDir()
	liveScratch = sc
	if err := os.MkdirAll(sc, 0o755); err != nil {
		return nil, err
	}
	if err := mergeGoSum(); err != nil {
		return nil, err
	}
	gorootB, err := exec.Command(goBin(), "env", "GOROOT").Output()
	if err != nil {
		return nil, fmt.Errorf("go env GOROOT: %v", err)
	}
	goroot := strings.TrimSpace(string(gorootB))
	ov, err := rtoverlay.Generate(goroot, filepath.Join(sc, "rt"))
	if err != nil {
		return nil, err
	}
	nsites := 0
	if yields {
		for _, d := range []string{"pkg/kgo", "pkg/kgo/internal/xsync"} {
			yo, sites, err := yieldgen.Generate(filepath.Join(repoDir, d), filepath.Join(sc, "y"), nsites)
			if err != nil {
				return nil, err
			}
			nsites += len(sites)
			if f := os.Getenv("VERIF_SITES_FILE"); f != "" {
				// diagnostics: site number -> source position
				if fh, err := os.OpenFile(f, os.O_APPEND|os.O_CREATE|os.O_WRONLY, 0o644); err == nil {
					for i, st := range sites {
						fmt.Fprintf(fh, "%d %s\n", nsites-len(sites)+i, st)
					}
					fh.Close()
				}
			}
			for k, v := range yo {
				ov[k] = v
			}
		}
	}
	b, _ := json.MarshalIndent(map[string]any{"Replace": ov}, "", " ")
	ovf := filepath.Join(sc, "overlay.json")
	if err := os.WriteFile(ovf, b, 0o644); err != nil {
		return nil, err
	}
	bin := filepath.Join(sc, "sim.test")
	args := []string{"test", "-c", "-tags", "synctests,verif,verifrt", "-overlay", ovf, "-o", bin}
	if repoDir != "/repo" {
		// same module file with the replace directives pointing at the other checkout
		gm, err := os.ReadFile(filepath.Join(simDir, "go.mod"))
		if err != nil {
			return nil, err
		}
		gs, _ := os.ReadFile(filepath.Join(simDir, "go.sum"))
		mf := filepath.Join(sc, "go.mod")
		if err := os.WriteFile(mf, []byte(strings.ReplaceAll(string(gm), "=> /repo", "=> "+repoDir)), 0o644); err != nil {
			return nil, err
		}
		os.WriteFile(filepath.Join(sc, "go.sum"), gs, 0o644)
		args = append(args, "-modfile", mf)
	}
	if race {
		args = append(args, "-race")
	}
	args = append(args, "./sim")
	cmd := exec.Command(goBin(), args...)
	cmd.Dir = simDir
	cmd.Env = goEnv()
	out, err := cmd.CombinedOutput()
	if err != nil {
		return nil, fmt.Errorf("build failed: %v\n%s", err, out)
	}
	bo := &buildOut{bin: bin, scratch: sc, sites: nsites}
	bo.threads = calibrateThreads(bin)
	return bo, nil
}

// liveScratch is this process's scratch directory (overlays, the simulation
// binary, plan/result files: about 20 MB). exit removes it on every way out;
// deferred calls do not run on os.Exit.
var liveScratch string

func quit(code int) {
	if liveScratch != "" && os.Getenv("VERIF_KEEP_SCRATCH") == "" {
		os.RemoveAll(liveScratch)
	}
	os.Exit(code)
}

// sweepScratch removes scratch directories left by processes that no longer
// exist (killed by a time-out, or from before exit removed them).
func sweepScratch() {
	root := filepath.Dir(scratchDir())
	ents, err := os.ReadDir(root)
	if err != nil {
		return
	}
	for _, e := range ents {
		pid, err := strconv.Atoi(e.Name())
		if err != nil || pid == os.Getpid() {
			continue
		}
		if _, err := os.Stat(fmt.Sprintf("/proc/%d", pid)); err == nil {
			continue // owner may still be running
		}
		os.RemoveAll(filepath.Join(root, e.Name()))
	}
}

func cleanup(b *buildOut) {
	if b != nil && os.Getenv("VERIF_KEEP_SCRATCH") == "" {
		os.RemoveAll(b.scratch)
	}
}
