// simctl is the parent process of the deterministic simulation: it builds the
// simulation binary from /repo's current tree, generates plans from
// VERIF_SEED, runs each plan in a fresh child process, shrinks failures,
// writes replay files and evidence.
package main

import (
	"encoding/json"
	"flag"
	"fmt"
	"os"
	"path/filepath"
	"runtime"
	"sort"
	"strconv"
	"strings"
	"sync"
	"time"

	"verifsim/plan"
)

func fatal2(f string, a ...any) {
	fmt.Fprintf(os.Stderr, "simctl: infrastructure error: "+f+"\n", a...)
	quit(2)
}

func envInt(k string, def int64) int64 {
	if v := os.Getenv(k); v != "" {
		if n, err := strconv.ParseInt(v, 10, 64); err == nil {
			return n
		}
	}
	return def
}

func seedFor(base uint64, prop string, i int) uint64 {
	x := base*0x9e3779b97f4a7c15 ^ uint64(i+1)*0xbf58476d1ce4e5b9
	for _, c := range prop {
		x = (x ^ uint64(c)) * 0x100000001b3
	}
	x ^= x >> 29
	x *= 0x94d049bb133111eb
	x ^= x >> 32
	return x & 0x7fffffffffff
}

func main() {
	if len(os.Args) < 2 {
		fmt.Fprintln(os.Stderr, "usage: simctl check <prop> [--tier quick|thorough] | replay <file> | one <prop> <seed> | selftest | build")
		quit(2)
	}
	switch os.Args[1] {
	case "build":
		b, err := build(false, true)
		if err != nil {
			fatal2("%v", err)
		}
		fmt.Printf("built %s (yield sites: %d)\n", b.bin, b.sites)
		cleanup(b)
	case "check":
		cmdCheck(os.Args[2:])
	case "replay":
		cmdReplay(os.Args[2:])
	case "one":
		cmdOne(os.Args[2:])
	case "shrink":
		cmdShrink(os.Args[2:])
	case "selftest":
		cmdSelftest(os.Args[2:])
	case "gen":
		prop := os.Args[2]
		seed, _ := strconv.ParseUint(os.Args[3], 10, 64)
		g := plan.Generators[prop]
		if g == nil {
			fatal2("no generator for %s", prop)
		}
		b, _ := json.MarshalIndent(g(seed), "", " ")
		fmt.Println(string(b))
	default:
		if f, ok := extraCmds[os.Args[1]]; ok {
			f(os.Args[2:])
			return
		}
		fmt.Fprintln(os.Stderr, "unknown command")
		quit(2)
	}
}

// adhocRun: the size of the run was overridden on the command line or the
// tree under test is a deliberately broken one; evidence and replay files go
// to adhoc/ sub-directories.
var adhocRun bool

type propCfg struct {
	quickRuns, quickSecs       int
	thoroughRuns, thoroughSecs int
	race                       bool
	level                      string
	wallLimit                  time.Duration
	plans                      func(base uint64, tier string) []*plan.Plan // enumeration instead of generation
}

func cfgFor(prop string) propCfg {
	c := propCfg{quickRuns: 400, quickSecs: 70, thoroughRuns: 40000, thoroughSecs: 1500, level: "exploration", wallLimit: 240 * time.Second}
	if o, ok := propOverrides[prop]; ok {
		o(&c)
	}
	return c
}

var propOverrides = map[string]func(*propCfg){
	"C02": func(c *propCfg) { c.quickRuns, c.quickSecs = 1500, 100 },
	"C39": func(c *propCfg) { c.quickRuns, c.quickSecs = 800, 90 },
	"C07": func(c *propCfg) { c.quickRuns, c.quickSecs = 700, 110 },
	"C12": func(c *propCfg) { c.quickRuns, c.quickSecs, c.wallLimit = 400, 120, 60*time.Second },
	"C13": func(c *propCfg) { c.quickRuns, c.quickSecs = 600, 110 },
	"C14": func(c *propCfg) { c.quickRuns, c.quickSecs = 1200, 110 },
	"C21": func(c *propCfg) { c.quickRuns, c.quickSecs = 1500, 100 },
	"C22": func(c *propCfg) { c.quickRuns, c.quickSecs = 1500, 110 },
	"C23": func(c *propCfg) { c.quickRuns, c.quickSecs = 800, 100 },
	"C29": func(c *propCfg) { c.quickRuns, c.quickSecs = 1500, 100 },
	"C32": func(c *propCfg) { c.quickRuns, c.quickSecs = 2500, 100 },
	"C33": func(c *propCfg) {
		c.level = "fault_enumeration"
		c.plans = func(base uint64, tier string) []*plan.Plan {
			// every file-system operation of each workload is a crash point:
			// the phases of one stride partition them among child processes
			if tier == "thorough" {
				return plan.EnumC33(base, 300, 8)
			}
			return plan.EnumC33(base, 24, 8)
		}
		c.quickSecs, c.thoroughSecs = 120, 2400
	},
	"C41": func(c *propCfg) {
		c.race = true
		c.quickRuns, c.quickSecs = 160, 150 // a race-detector run costs ~0.7 s of (mostly kernel) time and does not parallelise well in this VM
		c.thoroughRuns, c.thoroughSecs = 5000, 3600
		c.wallLimit = 480 * time.Second
	},
	"C11": func(c *propCfg) {
		c.level = "fault_enumeration"
		c.plans = func(base uint64, tier string) []*plan.Plan {
			ps := plan.EnumC11(base, tier)
			n := 150
			if tier == "thorough" {
				n = 6000
			}
			for i := 0; i < n; i++ {
				ps = append(ps, plan.Generators["C11"](seedFor(base, "C11", i)))
			}
			return ps
		}
		c.quickSecs, c.thoroughSecs = 120, 1800
	},
}

type agg struct {
	mu        sync.Mutex
	runs      int
	infra     int
	infraMsgs []string
	oos       int
	oosWhy    map[string]int
	stats     map[string]int64
	traces    map[string]bool
	nontriv   map[string]bool
	faulted   int
	faultFree int
	viols     []found
	other     map[string]int
	samples   []any
	dupCheck  int
	dupBad    int
}

type found struct {
	p   *plan.Plan
	res *plan.Result
	v   plan.Violation
}

func cmdCheck(args []string) {
	fs := flag.NewFlagSet("check", flag.ExitOnError)
	tier := fs.String("tier", os.Getenv("VERIF_TIER"), "quick|thorough")
	runs := fs.Int("runs", 0, "override number of runs")
	secs := fs.Int("seconds", 0, "override wall-clock budget")
	noShrink := fs.Bool("noshrink", false, "do not shrink")
	if len(args) < 1 {
		fatal2("check: property id required")
	}
	prop := args[0]
	fs.Parse(args[1:])
	if *tier == "" {
		*tier = "quick"
	}
	if *tier != "quick" && *tier != "thorough" {
		fatal2("unknown tier %q", *tier)
	}
	base := uint64(envInt("VERIF_SEED", 1))
	cfg := cfgFor(prop)
	gen := plan.Generators[prop]
	if gen == nil && cfg.plans == nil {
		fatal2("no generator for property %s", prop)
	}
	start := time.Now()
	b, err := build(cfg.race, true)
	if err != nil {
		fatal2("%v", err)
	}
	defer cleanup(b)
	buildS := time.Since(start).Seconds()

	n, budget := cfg.quickRuns, cfg.quickSecs
	if *tier == "thorough" {
		n, budget = cfg.thoroughRuns, cfg.thoroughSecs
	}
	if *runs > 0 {
		n = *runs
	}
	if *secs > 0 {
		budget = *secs
	}
	var fixed []*plan.Plan
	if cfg.plans != nil {
		fixed = cfg.plans(base, *tier)
		n = len(fixed)
		if *runs > 0 && *runs < n {
			n = *runs
		}
	}
	adhocRun = *runs > 0 || *secs > 0 || os.Getenv("VERIF_ADHOC") != ""
	a := &agg{stats: map[string]int64{}, traces: map[string]bool{}, nontriv: map[string]bool{}, other: map[string]int{}, oosWhy: map[string]int{}}
	deadline := time.Now().Add(time.Duration(budget) * time.Second)
	workers := runtime.NumCPU()
	if w := envInt("VERIF_WORKERS", 0); w > 0 {
		workers = int(w)
	}
	var next int
	var nmu sync.Mutex
	var wg sync.WaitGroup
	exhaustive := cfg.plans != nil
	for w := 0; w < workers; w++ {
		wg.Add(1)
		go func() {
			defer wg.Done()
			for {
				nmu.Lock()
				i := next
				next++
				nmu.Unlock()
				if i >= n {
					return
				}
				if time.Now().After(deadline) {
					nmu.Lock()
					exhaustive = false
					nmu.Unlock()
					return
				}
				var p *plan.Plan
				if fixed != nil {
					p = fixed[i]
				} else {
					p = gen(seedFor(base, prop, i))
				}
				res := runChild(b, p, cfg.wallLimit)
				a.add(prop, p, res)
				// determinism spot check: 2% of the runs are executed twice
				if i%50 == 7 && res.Infra == "" {
					res2 := runChild(b, p, cfg.wallLimit)
					a.mu.Lock()
					a.dupCheck++
					if res2.Infra == "" && (res2.TraceHash != res.TraceHash || len(res2.Violations) != len(res.Violations)) {
						a.dupBad++
						a.infraMsgs = append(a.infraMsgs, fmt.Sprintf("nondeterminism: seed %d trace %s vs %s", p.Seed, res.TraceHash, res2.TraceHash))
					}
					a.mu.Unlock()
				}
			}
		}()
	}
	wg.Wait()
	wall := time.Since(start).Seconds()

	// violations of this property
	kf := loadKnown()
	exit := 0
	var newViol, knownViol int
	reported := map[string]bool{}
	sort.Slice(a.viols, func(i, j int) bool { return a.viols[i].p.Seed < a.viols[j].p.Seed })
	for _, f := range a.viols {
		if k := kf.match(prop, f.v); k != nil {
			knownViol++
			if !reported["k:"+k.ID] {
				reported["k:"+k.ID] = true
				fmt.Printf("KNOWN-FINDING: property=%s %s: %s (e.g. seed %d, class %s)\n", prop, k.ID, firstLine(k.What, 220), f.p.Seed, f.v.Class)
			}
			continue
		}
		newViol++
		if reported[f.v.Class] {
			continue
		}
		reported[f.v.Class] = true
		p, res, v := f.p, f.res, f.v
		if !*noShrink {
			p, res, v = shrink(b, cfg, f.p, f.res, f.v, kf)
		}
		path := writeReplay(prop, p, res, v)
		fmt.Printf("VIOLATION property=%s replay=%s\n", prop, path)
		fmt.Printf("  class=%s seed=%d\n  %s\n", v.Class, p.Seed, firstLine(v.Msg, 600))
		exit = 1
	}
	// every listed finding of this property gets its line, also one whose
	// (rare) history this run's plans did not produce
	for i := range kf.Known {
		k := &kf.Known[i]
		if k.Property == prop && !reported["k:"+k.ID] {
			reported["k:"+k.ID] = true
			fmt.Printf("KNOWN-FINDING: property=%s %s: %s (listed; its history was not produced by this run's %d plans)\n", prop, k.ID, firstLine(k.What, 220), a.runs)
		}
	}
	for _, m := range firstN(a.infraMsgs, 3) {
		fmt.Fprintf(os.Stderr, "simctl: infrastructure trouble in a run: %s\n", firstLine(m, 400))
	}
	if a.dupBad > 0 {
		fmt.Fprintf(os.Stderr, "simctl: determinism spot-check failed %d/%d: %v\n", a.dupBad, a.dupCheck, a.infraMsgs)
	}
	// a run whose size was overridden on the command line is an ad-hoc
	// experiment: it must not replace the evidence of the registered command
	adhoc := adhocRun
	writeEvidence(prop, *tier, base, cfg, a, b, wall, buildS, newViol, knownViol, exhaustive, adhoc)
	fmt.Printf("%s %s: runs=%d distinct=%d violations(new)=%d known=%d out_of_scope=%d infra=%d wall=%.0fs (build %.0fs)\n", prop, *tier, a.runs, len(a.nontriv), newViol, knownViol, a.oos, a.infra, wall, buildS)
	if exit == 0 {
		if a.runs-a.infra-a.oos < 2 {
			fatal2("too few judged runs (%d runs, %d infra: %v)", a.runs, a.infra, a.infraMsgs)
		}
		if a.infra*5 > a.runs {
			fatal2("%d of %d runs failed for infrastructure reasons: %v", a.infra, a.runs, firstN(a.infraMsgs, 3))
		}
		// A same-plan re-execution that differs means a nondeterminism leak in
		// the simulator, not a property violation: verdicts stay sound (every
		// oracle judges the execution it observed), only replay of that plan
		// is unreliable. An isolated mismatch is reported (stderr, evidence);
		// a systematic one (>= 2 and > 2% of the re-executions) is
		// infrastructure failure.
		if a.dupBad >= 2 && a.dupBad*50 > a.dupCheck {
			quit(2)
		}
	}
	quit(exit)
}

func firstN(s []string, n int) []string {
	if len(s) > n {
		return s[:n]
	}
	return s
}

func firstLine(s string, n int) string {
	if i := strings.IndexByte(s, '\n'); i >= 0 {
		s = s[:i]
	}
	if len(s) > n {
		s = s[:n]
	}
	return s
}

func (a *agg) add(prop string, p *plan.Plan, res *plan.Result) {
	a.mu.Lock()
	defer a.mu.Unlock()
	a.runs++
	if res.Infra != "" {
		a.infra++
		if len(a.infraMsgs) < 5 {
			a.infraMsgs = append(a.infraMsgs, fmt.Sprintf("seed %d: %s", p.Seed, firstLine(res.Infra, 300)))
		}
		return
	}
	if res.OutOfScope != "" {
		a.oos++
		a.oosWhy[res.OutOfScope]++
		return
	}
	for k, v := range res.Stats {
		if strings.HasSuffix(k, "_max") || strings.HasPrefix(k, "wire.max") || k == "buffer_peak" {
			if a.stats[k] < v {
				a.stats[k] = v
			}
		} else {
			a.stats[k] += v
		}
	}
	fired := int64(0)
	for k, v := range res.Stats {
		if strings.HasPrefix(k, "fault.") || strings.HasPrefix(k, "env.") {
			fired += v
		}
	}
	if fired > 0 {
		a.faulted++
	} else {
		a.faultFree++
	}
	a.traces[res.TraceHash] = true
	if res.Stats["frames.req"] > 5 || res.Stats["nontrivial"] > 0 {
		a.nontriv[res.TraceHash] = true
	}
	if len(a.samples) < 3 {
		a.samples = append(a.samples, map[string]any{"seed": p.Seed, "knobs": p.K, "actors": summarizeActors(p), "faults": p.Faults, "events": p.Events, "stats": res.Stats, "trace": res.TraceHash})
	}
	// one entry per distinct class of a run, so that a recorded (known)
	// finding firing first does not hide another class in the same run
	seenCls := map[string]bool{}
	for _, v := range res.Violations {
		if judges(prop, v.Class) && !seenCls[v.Class] && len(seenCls) < 6 {
			seenCls[v.Class] = true
			a.viols = append(a.viols, found{p, res, v})
		}
	}
	for _, v := range res.Violations {
		if !judges(prop, v.Class) {
			a.other[v.Class]++
		}
	}
}

// alsoJudges: oracle classes filed under another property that are part of a
// property's own oracle (C29's end-to-end clause is C02's exactly-once oracle
// on runs that cross the sequence wrap).
var alsoJudges = map[string][]string{
	"C29": {"C02/acked/", "C02/failed-but-written/", "C02/log/", "C18/sequence/"},
}

func judges(prop, class string) bool {
	if strings.HasPrefix(class, prop+"/") {
		return true
	}
	for _, pfx := range alsoJudges[prop] {
		if strings.HasPrefix(class, pfx) {
			return true
		}
	}
	return false
}

func summarizeActors(p *plan.Plan) []string {
	var out []string
	for _, a := range p.Actors {
		var ops []string
		for i, o := range a.Ops {
			if i >= 12 {
				ops = append(ops, fmt.Sprintf("...+%d", len(a.Ops)-i))
				break
			}
			ops = append(ops, o.Kind)
		}
		out = append(out, a.Name+": "+strings.Join(ops, ","))
	}
	return out
}

func cmdOne(args []string) {
	if len(args) < 2 {
		fatal2("one <prop> <seed|planfile>")
	}
	prop := args[0]
	var p *plan.Plan
	if seed, err := strconv.ParseUint(args[1], 10, 64); err == nil {
		g := plan.Generators[prop]
		if g == nil {
			fatal2("no generator for %s", prop)
		}
		p = g(seed)
	} else {
		p, err = plan.Load(args[1])
		if err != nil {
			fatal2("%v", err)
		}
	}
	for _, kv := range args[2:] {
		if i := strings.IndexByte(kv, '='); i > 0 {
			v, _ := strconv.ParseInt(kv[i+1:], 10, 64)
			p.K[kv[:i]] = v
		}
	}
	cfg := cfgFor(prop)
	b, err := build(cfg.race, true)
	if err != nil {
		fatal2("%v", err)
	}
	defer cleanup(b)
	res := runChild(b, p, cfg.wallLimit)
	log := res.Log
	res.Log = nil
	out, _ := json.MarshalIndent(res, "", " ")
	fmt.Println(string(out))
	if f := os.Getenv("VERIF_LOGFILE"); f != "" {
		os.WriteFile(f, []byte(strings.Join(log, "\n")), 0o644)
	}
}

func writeReplay(prop string, p *plan.Plan, res *plan.Result, v plan.Violation) string {
	dir := filepath.Join(verifDir, "replays")
	if adhocRun {
		dir = filepath.Join(dir, "adhoc") // experiments and seeded-break runs (ignored by git)
	}
	os.MkdirAll(dir, 0o755)
	path := filepath.Join(dir, fmt.Sprintf("%s-%d.json", prop, p.Seed))
	logTail := res.Log
	if len(logTail) > 400 {
		logTail = logTail[len(logTail)-400:]
	}
	rf := map[string]any{
		"property": prop, "class": v.Class, "message": v.Msg, "seed": p.Seed, "plan": p, "trace_hash": res.TraceHash,
		"toolchain": "go1.26.8 + runtime overlay", "log_tail": logTail,
	}
	b, _ := json.MarshalIndent(rf, "", " ")
	os.WriteFile(path, b, 0o644)
	return path
}

type replayFile struct {
	Property  string     `json:"property"`
	Class     string     `json:"class"`
	Message   string     `json:"message"`
	Seed      uint64     `json:"seed"`
	Plan      *plan.Plan `json:"plan"`
	TraceHash string     `json:"trace_hash"`
}

func cmdReplay(args []string) {
	if len(args) < 1 {
		fatal2("replay <file>")
	}
	rb, err := os.ReadFile(args[0])
	if err != nil {
		fatal2("%v", err)
	}
	var rf replayFile
	if err := json.Unmarshal(rb, &rf); err != nil || rf.Plan == nil {
		fatal2("bad replay file: %v", err)
	}
	if rf.Plan.K == nil {
		rf.Plan.K = map[string]int64{}
	}
	cfg := cfgFor(rf.Property)
	b, err := build(cfg.race, true)
	if err != nil {
		fatal2("%v", err)
	}
	defer cleanup(b)
	rf.Plan.K["keeplog"] = 1
	res := runChild(b, rf.Plan, cfg.wallLimit)
	if res.Infra != "" {
		fatal2("replay: %s", res.Infra)
	}
	if f := os.Getenv("VERIF_LOGFILE"); f != "" {
		os.WriteFile(f, []byte(strings.Join(res.Log, "\n")), 0o644)
	}
	for _, v := range res.Violations {
		if v.Class == rf.Class {
			same := "same trace"
			if res.TraceHash != rf.TraceHash {
				same = fmt.Sprintf("trace differs: recorded %s now %s (code under test changed?)", rf.TraceHash, res.TraceHash)
			}
			fmt.Printf("VIOLATION property=%s replay=%s\n  class=%s (%s)\n  %s\n", rf.Property, args[0], v.Class, same, firstLine(v.Msg, 800))
			quit(1)
		}
	}
	fmt.Printf("replay of %s did not reproduce class %s (violations now: %d, trace %s vs recorded %s)\n", args[0], rf.Class, len(res.Violations), res.TraceHash, rf.TraceHash)
	quit(0)
}

func cmdShrink(args []string) {
	rb, err := os.ReadFile(args[0])
	if err != nil {
		fatal2("%v", err)
	}
	var rf replayFile
	if err := json.Unmarshal(rb, &rf); err != nil || rf.Plan == nil {
		fatal2("bad replay file: %v", err)
	}
	cfg := cfgFor(rf.Property)
	b, err := build(cfg.race, true)
	if err != nil {
		fatal2("%v", err)
	}
	defer cleanup(b)
	res := runChild(b, rf.Plan, cfg.wallLimit)
	var v *plan.Violation
	for i := range res.Violations {
		if res.Violations[i].Class == rf.Class {
			v = &res.Violations[i]
		}
	}
	if v == nil {
		fmt.Println("does not reproduce")
		quit(0)
	}
	p, r2, v2 := shrink(b, cfg, rf.Plan, res, *v, loadKnown())
	path := writeReplay(rf.Property, p, r2, v2)
	fmt.Println("shrunk:", path)
}

func init() {
	extraCmds["seedfor"] = func(args []string) {
		base, _ := strconv.ParseUint(args[0], 10, 64)
		i, _ := strconv.Atoi(args[2])
		fmt.Println(seedFor(base, args[1], i))
	}
}

var extraCmds = map[string]func([]string){}

func init() {
	extraCmds["stress"] = func(args []string) {
		prop := args[0]
		seed, _ := strconv.ParseUint(args[1], 10, 64)
		n, _ := strconv.Atoi(args[2])
		cfg := cfgFor(prop)
		b, err := build(cfg.race, true)
		if err != nil {
			fatal2("%v", err)
		}
		defer cleanup(b)
		hist := map[string]int{}
		seenHash := map[string]bool{}
		var mu sync.Mutex
		var wg sync.WaitGroup
		sem := make(chan struct{}, runtime.NumCPU())
		for i := 0; i < n; i++ {
			wg.Add(1)
			sem <- struct{}{}
			go func() {
				defer wg.Done()
				defer func() { <-sem }()
				p := plan.Generators[prop](seed)
				p.K["addrprobe"] = 1
				p.K["keeplog"] = 1
				p.K["logtail"] = 2000000
				p.K["logring"] = 2000000
				p.K["wirelog"] = envInt("VERIF_WIRELOG", 0)
				p.K["logdraws"] = envInt("VERIF_LOGDRAWS", 0)
				p.K["evlog"] = envInt("VERIF_EVLOG", 0)
				r := runChild(b, p, cfg.wallLimit)
				mu.Lock()
				if !seenHash[r.TraceHash] {
					seenHash[r.TraceHash] = true
					os.WriteFile("/tmp/stress-"+r.TraceHash+".log", []byte(strings.Join(r.Log, "\n")), 0o644)
				}
				nbn := ""
				for k := range r.Stats {
					if strings.HasPrefix(k, "nb:") {
						nbn = k
					}
				}
				hist[fmt.Sprintf("%s threads=%d/%d addr=%x viol=%d infra=%q nbready=%d %s", r.TraceHash, r.Stats["threads_at_start"], r.Stats["threads_at_end"], r.Stats["addr_probe"], len(r.Violations), firstLine(r.Infra, 60), r.Stats["nonbubble_readies"], nbn)]++
				mu.Unlock()
			}()
		}
		wg.Wait()
		for k, v := range hist {
			fmt.Println(v, k)
		}
	}
}
