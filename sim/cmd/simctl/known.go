package main

import (
	"encoding/json"
	"os"
	"path/filepath"
	"strings"

	"verifsim/plan"
)

// knownFile is /verif/known_findings.json: genuine defects recorded rather
// than repaired ("known") and repaired ones ("fixed", which suppress nothing).
type knownFile struct {
	Known []knownEntry `json:"known"`
	Fixed []fixedEntry `json:"fixed"`
}

type knownEntry struct {
	ID          string   `json:"id"`
	Property    string   `json:"property"`
	ClassPrefix string   `json:"class_prefix"`
	MsgContains []string `json:"msg_contains,omitempty"`
	What        string   `json:"what"`
}

type fixedEntry struct {
	Property string `json:"property"`
	Commit   string `json:"commit"`
	What     string `json:"what"`
	Line     string `json:"line"`
}

func loadKnown() *knownFile {
	var k knownFile
	b, err := os.ReadFile(filepath.Join(verifDir, "known_findings.json"))
	if err != nil {
		return &k
	}
	if err := json.Unmarshal(b, &k); err != nil {
		fatal2("known_findings.json: %v", err)
	}
	return &k
}

func (k *knownFile) match(prop string, v plan.Violation) *knownEntry {
	for i := range k.Known {
		e := &k.Known[i]
		if e.Property != prop || !strings.HasPrefix(v.Class, e.ClassPrefix) {
			continue
		}
		ok := true
		for _, m := range e.MsgContains {
			if !strings.Contains(v.Msg, m) {
				ok = false
			}
		}
		if ok {
			return e
		}
	}
	return nil
}
