package main

import (
	"bytes"
	"context"
	"encoding/json"
	"fmt"
	"os"
	"os/exec"
	"path/filepath"
	"strings"
	"sync/atomic"
	"syscall"
	"time"

	"verifsim/plan"
)

var runCounter atomic.Int64

// runChild executes one plan in a fresh OS process. A missing result, a
// non-zero exit without a result or a watchdog kill is infrastructure.
func runChild(b *buildOut, p *plan.Plan, wallLimit time.Duration) *plan.Result {
	id := runCounter.Add(1)
	pf := filepath.Join(b.scratch, fmt.Sprintf("plan-%08d.json", id))
	of := filepath.Join(b.scratch, fmt.Sprintf("out-%08d.json", id))
	defer os.Remove(pf)
	defer os.Remove(of)
	if err := p.Save(pf); err != nil {
		return &plan.Result{Prop: p.Prop, Seed: p.Seed, Infra: err.Error(), Stats: map[string]int64{}}
	}
	ctx, cancel := context.WithTimeout(context.Background(), wallLimit)
	defer cancel()
	cmd := exec.CommandContext(ctx, b.bin, "-test.run", "^TestSim$", "-test.timeout", "0")
	// on the wall-clock watchdog ask the child for a goroutine dump first
	cmd.Cancel = func() error { return cmd.Process.Signal(syscall.SIGQUIT) }
	cmd.WaitDelay = 10 * time.Second
	// The child's environment block and argv are identical in number and
	// length of entries for every run of every invocation (fixed-width ids,
	// fixed HOME/PATH): start-up allocations depend on them, and with the
	// heap layout the iteration order of pointer-keyed maps.
	env := []string{"GOMAXPROCS=1", "GOGC=off", "GODEBUG=asyncpreemptoff=1,randautoseed=0,randseednop=0,updatemaxprocs=0", "VERIF_REEXEC=00", "VERIF_PLAN=" + pf, "VERIF_OUT=" + of, "HOME=/nonexistent", "PATH=/usr/bin:/bin", "GORACE=halt_on_error=0 exitcode=66"}
	if b.threads > 0 {
		env = append(env, fmt.Sprintf("VERIF_THREADS=%03d", b.threads))
	}
	cmd.Env = env
	var out bytes.Buffer
	cmd.Stdout, cmd.Stderr = &out, &out
	err := cmd.Run()
	res := &plan.Result{}
	if rb, rerr := os.ReadFile(of); rerr == nil && json.Unmarshal(rb, res) == nil && res.Stats != nil {
		if os.Getenv("VERIF_CHILD_OUT") != "" { // diagnostics: what the child printed
			res.Log = append(res.Log, "CHILD OUTPUT", out.String())
		}
		if strings.Contains(out.String(), "WARNING: DATA RACE") {
			res.Log = append(res.Log, tail(out.String(), 12000))
			res.Stats["race_reports"] = int64(strings.Count(out.String(), "WARNING: DATA RACE"))
			res.Summary = "race"
			raceViolations(res, out.String())
		}
		return res
	}
	if strings.Contains(out.String(), "WARNING: DATA RACE") {
		// the testing package ends a test on which the race detector
		// reported before the result file is written
		res = &plan.Result{Prop: p.Prop, Seed: p.Seed, Stats: map[string]int64{"nontrivial": 1}, TraceHash: fmt.Sprintf("race-%d", p.Seed), Summary: "race"}
		res.Log = append(res.Log, tail(out.String(), 12000))
		res.Stats["race_reports"] = int64(strings.Count(out.String(), "WARNING: DATA RACE"))
		raceViolations(res, out.String())
		return res
	}
	if o := out.String(); strings.Contains(o, "\npanic: ") || strings.HasPrefix(o, "panic: ") || strings.Contains(o, "fatal error: ") {
		// a panic that took the process down: a violation (no client
		// input, schedule or byte stream may panic the library), with the
		// goroutine trace as the message
		i := strings.Index(o, "panic: ")
		if i < 0 {
			i = strings.Index(o, "fatal error: ")
		}
		msg := o[i:]
		if len(msg) > 6000 {
			msg = msg[:6000]
		}
		if strings.Contains(msg, "franz-go/pkg/kgo") || strings.Contains(msg, "franz-go/pkg/kfake") || strings.Contains(msg, "franz-go/pkg/kmsg") {
			res = &plan.Result{Prop: p.Prop, Seed: p.Seed, Stats: map[string]int64{"nontrivial": 1}, TraceHash: fmt.Sprintf("panic-%d", p.Seed), Summary: "panic"}
			res.Violations = []plan.Violation{{Class: p.Prop + "/panic/process", Msg: "the process died: " + msg}}
			return res
		}
	}
	why := "no result"
	if ctx.Err() != nil {
		why = fmt.Sprintf("watchdog: no result within %v of wall time", wallLimit)
	} else if err != nil {
		why = "child failed: " + err.Error()
	}
	if f := os.Getenv("VERIF_CHILD_OUT_FILE"); f != "" { // diagnostics: everything the child printed
		os.WriteFile(f, out.Bytes(), 0o644)
	}
	return &plan.Result{Prop: p.Prop, Seed: p.Seed, Infra: why + "\n" + headTail(out.String(), 60000, 140000), Stats: map[string]int64{}}
}

func tail(s string, n int) string {
	if len(s) > n {
		return s[len(s)-n:]
	}
	return s
}

// raceViolations turns the race detector's reports into C41 violations. C41
// is about the client's memory: a report counts when one of the two
// conflicting accesses has a frame in pkg/kgo; reports between harness or
// kfake code only are counted (stats) and logged, not judged.
func raceViolations(res *plan.Result, out string) {
	for _, rep := range strings.Split(out, "==================") {
		if !strings.Contains(rep, "WARNING: DATA RACE") {
			continue
		}
		acc := rep
		if i := strings.Index(acc, "\nGoroutine "); i > 0 {
			acc = acc[:i] // the two access stacks, without the goroutine creation stacks
		}
		if !strings.Contains(acc, "/pkg/kgo.") && !strings.Contains(acc, "/pkg/kgo/") {
			res.Stats["race_reports_outside_client"]++
			continue
		}
		fn := "unknown"
		for _, l := range strings.Split(acc, "\n") {
			l = strings.TrimSpace(l)
			if strings.HasPrefix(l, "github.com/twmb/franz-go/pkg/kgo") {
				fn = strings.TrimPrefix(l, "github.com/twmb/franz-go/pkg/")
				if i := strings.IndexByte(fn, '('); i > 0 && !strings.HasPrefix(fn[i:], "(*") {
					fn = fn[:i]
				}
				if i := strings.LastIndex(fn, "("); i > 0 && strings.HasSuffix(fn, ")") && !strings.Contains(fn[i:], "*") {
					fn = fn[:i]
				}
				break
			}
		}
		if len(res.Violations) < 5 {
			res.Violations = append(res.Violations, plan.Violation{Class: "C41/race/" + fn, Msg: "data race reported by the race detector:\n" + strings.TrimSpace(rep)})
		}
	}
}

// headTail keeps the beginning (the running goroutine comes first in a
// SIGQUIT dump) and the end of a long output.
func headTail(s string, h, t int) string {
	if len(s) <= h+t {
		return s
	}
	return s[:h] + "\n...\n" + s[len(s)-t:]
}
