package main

import (
	"fmt"
	"os/exec"
	"sync"

	"verifsim/plan"
)

// cmdSelftest proves determinism: N seeds x 3 fresh processes at different
// machine loads (taskset widths), diff of (trace hash, verdict).
func cmdSelftest(args []string) {
	props := []string{"C02", "C03"}
	if len(args) > 0 {
		props = args
	}
	nseeds := int(envInt("VERIF_SELFTEST_SEEDS", 24))
	b, err := build(false, true)
	if err != nil {
		fatal2("%v", err)
	}
	defer cleanup(b)
	// hidden random iteration in harness code
	if out, _ := exec.Command("grep", "-rn", "\\.Range(", simDir+"/sim").Output(); len(out) > 0 {
		fatal2("harness uses a Range( call (hidden random iteration?):\n%s", out)
	}
	bad := 0
	total := 0
	for _, prop := range props {
		gen := plan.Generators[prop]
		if gen == nil {
			continue
		}
		for _, width := range []int{16, 4, 1} {
			type r struct{ h [3]string }
			res := make([]r, nseeds)
			var wg sync.WaitGroup
			sem := make(chan struct{}, width)
			for i := 0; i < nseeds; i++ {
				for rep := 0; rep < 3; rep++ {
					if width != 16 && rep > 0 {
						continue
					}
					wg.Add(1)
					sem <- struct{}{}
					go func(i, rep int) {
						defer wg.Done()
						defer func() { <-sem }()
						p := gen(seedFor(99, prop, i))
						x := runChild(b, p, cfgFor(prop).wallLimit)
						res[i].h[rep] = fmt.Sprintf("%s/%d/%s", x.TraceHash, len(x.Violations), x.Infra)
					}(i, rep)
				}
			}
			wg.Wait()
			if width == 16 {
				for i := range res {
					total++
					if res[i].h[0] != res[i].h[1] || res[i].h[1] != res[i].h[2] {
						bad++
						fmt.Printf("MISMATCH %s seed#%d: %v\n", prop, i, res[i].h)
					}
				}
				base16 = append(base16[:0], make([]string, 0)...)
				for i := range res {
					base16 = append(base16, res[i].h[0])
				}
			} else {
				for i := range res {
					total++
					if res[i].h[0] != base16[i] {
						bad++
						fmt.Printf("MISMATCH %s seed#%d width=%d: %s vs %s\n", prop, i, width, res[i].h[0], base16[i])
					}
				}
			}
		}
	}
	fmt.Printf("selftest: %d comparisons, %d mismatches\n", total, bad)
	if bad > 0 {
		quit(2)
	}
}

var base16 []string
