package main

import (
	"strings"
	"time"

	"verifsim/plan"
)

// shrink minimises the plan while the same violation class persists. Every
// candidate is executed in a fresh child process.
func shrink(b *buildOut, cfg propCfg, p *plan.Plan, res *plan.Result, v plan.Violation, kf *knownFile) (*plan.Plan, *plan.Result, plan.Violation) {
	deadline := time.Now().Add(150 * time.Second)
	tries := 0
	try := func(q *plan.Plan) bool {
		if time.Now().After(deadline) || tries > 250 {
			return false
		}
		tries++
		r := runChild(b, q, cfg.wallLimit)
		if r.Infra != "" {
			return false
		}
		for _, w := range r.Violations {
			if w.Class == v.Class {
				p, res, v = q, r, w
				return true
			}
		}
		return false
	}
	changed := true
	for changed && time.Now().Before(deadline) {
		changed = false
		// faults
		if len(p.Faults) > 0 {
			q := p.Clone()
			q.Faults = nil
			if try(q) {
				changed = true
			}
		}
		for i := 0; i < len(p.Faults); i++ {
			q := p.Clone()
			q.Faults = append(q.Faults[:i], q.Faults[i+1:]...)
			if try(q) {
				changed = true
				i--
			}
		}
		if len(p.Events) > 0 {
			q := p.Clone()
			q.Events = nil
			if try(q) {
				changed = true
			}
		}
		for i := 0; i < len(p.Events); i++ {
			q := p.Clone()
			q.Events = append(q.Events[:i], q.Events[i+1:]...)
			if try(q) {
				changed = true
				i--
			}
		}
		// whole actors
		for i := 0; i < len(p.Actors) && len(p.Actors) > 1; i++ {
			// the actors that poll are part of what a consumer is: without
			// them every "was not consumed" clause fails for a reason that
			// has nothing to do with the code under test
			if n := p.Actors[i].Name; strings.HasPrefix(n, "poll") || strings.HasPrefix(n, "pattern") {
				continue
			}
			q := p.Clone()
			q.Actors = append(q.Actors[:i], q.Actors[i+1:]...)
			if try(q) {
				changed = true
				i--
			}
		}
		// op chunks
		for ai := range p.Actors {
			for chunk := len(p.Actors[ai].Ops) / 2; chunk >= 1; chunk /= 2 {
				for start := 0; start+chunk <= len(p.Actors[ai].Ops); {
					q := p.Clone()
					ops := q.Actors[ai].Ops
					q.Actors[ai].Ops = append(ops[:start:start], ops[start+chunk:]...)
					if try(q) {
						changed = true
					} else {
						start += chunk
					}
				}
			}
		}
		// simpler schedules
		for _, kv := range []struct {
			k string
			v int64
		}{{"yield", 0}, {"sched", 0}, {"burst", 0}, {"latmode", 1}} {
			if cur, ok := p.K[kv.k]; ok && cur != kv.v {
				q := p.Clone()
				q.K[kv.k] = kv.v
				if try(q) {
					changed = true
				}
			}
		}
	}
	return p, res, v
}
