module verifsim

go 1.25.0

require (
	github.com/klauspost/compress v1.18.7
	github.com/pierrec/lz4/v4 v4.1.26
	github.com/twmb/franz-go v1.21.1
	github.com/twmb/franz-go/pkg/kfake v0.0.0
	github.com/twmb/franz-go/pkg/kmsg v1.13.1
)

replace github.com/twmb/franz-go => /repo

replace github.com/twmb/franz-go/pkg/kfake => /repo/pkg/kfake

replace github.com/twmb/franz-go/pkg/kmsg => /repo/pkg/kmsg
