package plan

import "fmt"

func txnWorkload(g *G, nclients int, nparts int64) {
	for c := 0; c < nclients; c++ {
		name := fmt.Sprintf("x%d", c)
		a := Actor{Name: "txn." + name, Client: name}
		ntx := int(g.rng(3, 6))
		for t := 0; t < ntx; t++ {
			a.Ops = append(a.Ops, Op{Kind: "begin"})
			n := int(g.rng(1, 4))
			for i := 0; i < n; i++ {
				a.Ops = append(a.Ops, Op{Kind: "produce", S: "t0", B: g.rng(0, nparts-1), C: g.pick(10, 40, 120)})
			}
			if g.pct(30) {
				a.Ops = append(a.Ops, Op{Kind: "abort"})
			} else {
				a.Ops = append(a.Ops, Op{Kind: "commit"})
			}
			if g.pct(30) {
				a.Ops = append(a.Ops, Op{Kind: "sleep", A: g.pick(1, 100, 1000)})
			}
		}
		// two committed transactions at the end ("including after later
		// transactions commit")
		for t := 0; t < 2; t++ {
			a.Ops = append(a.Ops, Op{Kind: "begin"}, Op{Kind: "produce", S: "t0", B: g.rng(0, nparts-1), C: 20}, Op{Kind: "commit"})
		}
		g.P.Actors = append(g.P.Actors, a)
	}
}

func txnBase(seed uint64) *G {
	g := newG("C11", "txn", seed)
	k := g.P.K
	g.schedKnobs()
	k["nbroker"] = g.rng(1, 3)
	k["nparts"] = g.rng(1, 3)
	k["txn_timeout_ms"] = g.pick(6000, 10000, 20000)
	k["req_overhead_ms"] = g.pick(1000, 2000)
	k["retry_timeout_ms"] = g.pick(4000, 8000)
	k["kafka_ver"] = g.pick(0, 0, 1)
	k["linger_ms"] = g.pick(0, 5)
	return g
}

// txn fault kinds per API key for the single-fault enumeration.
type txnFaultSpec struct {
	key   int16
	maxN  int
	kinds []Fault
}

func txnFaultSpecs() []txnFaultSpec {
	mk := func(kind string, code int16, dur int64) Fault {
		return Fault{Kind: kind, Code: code, DurMs: dur, Broker: -1}
	}
	coord := []Fault{mk("kill_req", 0, 0), mk("kill_resp", 0, 0), mk("err_noproc", ErrCoordinatorLoadInProgress, 0), mk("err_noproc", ErrNotCoordinator, 0), mk("err_noproc", ErrConcurrentTransactions, 0), mk("delay_resp", 0, 25000)}
	return []txnFaultSpec{
		{22, 2, coord},
		{24, 4, coord},
		{0, 8, []Fault{mk("kill_req", 0, 0), mk("kill_resp", 0, 0), mk("err_noproc", ErrNotLeader, 0), mk("err_noproc", ErrRequestTimedOut, 0), mk("err_after", ErrRequestTimedOut, 0), mk("err_after", ErrNotEnoughReplicasAfterAppend, 0), mk("delay_resp", 0, 25000)}},
		{26, 6, append(append([]Fault{}, coord...), mk("err_after", ErrRequestTimedOut, 0), mk("err_after", ErrCoordinatorNotAvailable, 0))},
	}
}

// EnumC11 enumerates every single fault placement over seeded base workloads.
func EnumC11(base uint64, tier string) []*Plan {
	nwork := 1
	if tier == "thorough" {
		nwork = 16
	}
	var out []*Plan
	for w := 0; w < nwork; w++ {
		seed := base*1000 + uint64(w)
		for _, ver := range []int64{0, 1} {
			mkBase := func() *Plan {
				g := txnBase(seed)
				g.P.K["kafka_ver"] = ver
				txnWorkload(g, 1, g.P.K["nparts"])
				return g.P
			}
			out = append(out, mkBase()) // fault free
			for _, sp := range txnFaultSpecs() {
				for n := 1; n <= sp.maxN; n++ {
					for _, f := range sp.kinds {
						p := mkBase()
						f.Key, f.Nth = sp.key, n
						p.Faults = append(p.Faults, f)
						p.Seed = seed + uint64(len(out))*7919
						out = append(out, p)
					}
				}
			}
		}
	}
	return out
}

// genC11 samples double faults, several clients, leader and coordinator moves.
func genC11(seed uint64) *Plan {
	g := txnBase(seed)
	txnWorkload(g, int(g.rng(1, 2)), g.P.K["nparts"])
	specs := txnFaultSpecs()
	n := int(g.rng(1, 4))
	for i := 0; i < n; i++ {
		sp := specs[g.R.Intn(len(specs))]
		f := sp.kinds[g.R.Intn(len(sp.kinds))]
		f.Key, f.Nth = sp.key, int(g.rng(1, int64(sp.maxN)))
		g.fault(f)
	}
	g.moves(int(g.rng(0, 2)), 1, g.P.K["nparts"], 15000)
	if g.pct(30) {
		g.P.Events = append(g.P.Events, Event{AtMs: g.rng(1, 15000), Kind: "rehash"})
	}
	if g.pct(30) {
		// leadership moves while a produce response is on its way, and the
		// client refreshes its metadata before the response arrives
		if g.P.K["nbroker"] < 2 {
			g.P.K["nbroker"] = g.rng(2, 3)
		}
		g.P.K["meta_max_ms"] = g.pick(300, 1000)
		for i := 0; i < int(g.rng(1, 3)); i++ {
			g.fault(Fault{Kind: "delay_resp_move", Broker: -1, Key: 0, Nth: int(g.rng(1, 14)), DurMs: g.pick(1000, 2500, 4000)})
		}
	}
	return g.P
}

func init() { Generators["C11"] = genC11 }
