package plan

import "fmt"

// genC21: version negotiation against rewritten ApiVersions responses
// (sim/scen_versions.go).
func genC21(seed uint64) *Plan {
	g := newG("C21", "versions", seed)
	k := g.P.K
	g.schedKnobs()
	nb := g.rng(1, 3)
	k["nbroker"] = nb
	k["narrow_pct"] = g.pick(0, 40, 60, 90)
	k["user_max"] = g.pick(1, 1, 2, 3, 4, 5, 6)
	k["user_min"] = g.pick(0, 0, 0, 7, 8, 9)
	k["user_tweaks"] = g.rng(0, 3)
	if g.pct(70) {
		k["worker"] = 1
	} else {
		k["worker"] = 0
	}
	k["req_overhead_ms"] = g.pick(500, 2000)
	k["retry_timeout_ms"] = g.pick(2000, 8000)
	horizon := int64(15000)
	for a := 0; a < int(g.rng(1, 2)); a++ {
		act := Actor{Name: fmt.Sprintf("a%d", a), Client: "v0"}
		for i := 0; i < int(g.rng(8, 40)); i++ {
			if g.pct(80) {
				op := Op{Kind: "req", A: g.rng(0, 11), B: g.rng(0, nb-1)}
				if g.pct(60) {
					op.C = 1
				}
				act.Ops = append(act.Ops, op)
			} else {
				act.Ops = append(act.Ops, Op{Kind: "sleep", A: g.pick(1, 50, 400, 1500)})
			}
		}
		g.P.Actors = append(g.P.Actors, act)
	}
	for i := 0; i < int(g.rng(0, 3)); i++ {
		g.P.Events = append(g.P.Events, Event{AtMs: g.rng(100, horizon), Kind: "reversion", A: g.rng(0, nb-1)})
	}
	for i := 0; i < int(g.rng(0, 3)); i++ {
		g.fault(Fault{Kind: g.pickS("kill_resp", "kill_req", "kill_any"), Broker: -1, Key: -1, Nth: int(g.rng(2, 20)), AtMs: g.rng(100, horizon)})
	}
	return g.P
}

func init() { Generators["C21"] = genC21 }
