package plan

import (
	"fmt"
	"math/rand"
	"strings"
)

// Generators maps a property id to its plan generator. A generator is a pure
// function of the seed.
var Generators = map[string]func(seed uint64) *Plan{}

type G struct {
	R *rand.Rand
	P *Plan
}

func newG(prop, scenario string, seed uint64) *G {
	r := rand.New(rand.NewSource(int64(seed)))
	return &G{R: r, P: &Plan{Prop: prop, Scenario: scenario, Seed: seed, K: map[string]int64{}}}
}

func (g *G) pick(vals ...int64) int64 { return vals[g.R.Intn(len(vals))] }
func (g *G) rng(lo, hi int64) int64 {
	if hi <= lo {
		return lo
	}
	return lo + g.R.Int63n(hi-lo+1)
}
func (g *G) pct(p int) bool { return g.R.Intn(100) < p }

// schedKnobs draws the scheduler/latency knobs (swarm style).
func (g *G) schedKnobs() {
	g.P.K["sched"] = g.pick(0, 16, 64, 128)
	g.P.K["yield"] = g.pick(0, 256, 1024, 4096, 16384)
	g.P.K["latmode"] = g.pick(0, 0, 1, 2)
	g.P.K["burst"] = g.pick(0, 0, 30, 70)
}

// Kafka error codes used by faults.
const (
	ErrUnknownTopicOrPartition      = 3
	ErrLeaderNotAvailable           = 5
	ErrNotLeader                    = 6
	ErrRequestTimedOut              = 7
	ErrCoordinatorNotAvailable      = 15
	ErrCoordinatorLoadInProgress    = 14
	ErrNotCoordinator               = 16
	ErrNotEnoughReplicas            = 19
	ErrNotEnoughReplicasAfterAppend = 20
	ErrRebalanceInProgress          = 27
	ErrConcurrentTransactions       = 51
	ErrKafkaStorageError            = 56
	ErrFetchSessionIDNotFound       = 70
	ErrInvalidFetchSessionEpoch     = 71
)

func (g *G) fault(f Fault) { g.P.Faults = append(g.P.Faults, f) }

// produceFaults adds faults around the produce path.
func (g *G) produceFaults(n int, clients []string, nbroker int64, horizonMs int64, emphasisLostResp bool) {
	for i := 0; i < n; i++ {
		cl := ""
		if g.pct(50) {
			cl = clients[g.R.Intn(len(clients))]
		}
		f := Fault{Client: cl, Broker: -1, Key: 0, Nth: int(g.rng(1, 12))}
		w := g.R.Intn(100)
		if emphasisLostResp && g.pct(50) {
			w = g.R.Intn(48)
		}
		if emphasisLostResp {
			f.Nth = int(g.rng(1, 30))
		}
		switch {
		case w < 22:
			f.Kind = "kill_resp"
		case w < 34:
			f.Kind = "err_after"
			f.Code = int16(g.pick(ErrRequestTimedOut, ErrNotEnoughReplicasAfterAppend))
		case w < 48:
			f.Kind = "err_noproc"
			f.Code = int16(g.pick(ErrNotLeader, ErrNotLeader, ErrRequestTimedOut, ErrNotEnoughReplicas, ErrUnknownTopicOrPartition, ErrKafkaStorageError, ErrLeaderNotAvailable))
		case w < 58:
			f.Kind = "kill_req"
		case w < 64:
			f.Kind = "partial_write"
			f.Arg = g.rng(1, 200)
		case w < 72:
			f.Kind = g.pickS("delay", "delay_resp", "delay_resp_move")
			f.DurMs = g.rng(10, 12000)
		case w < 78:
			f.Kind = g.pickS("stall", "stall_resp")
			f.DurMs = g.rng(100, 15000)
		case w < 84:
			// metadata / init producer id trouble
			f.Key = int16(g.pick(3, 22))
			f.Nth = int(g.rng(1, 5))
			if f.Key == 3 {
				f.Kind = g.pickS("kill_resp", "kill_req", "delay_resp")
				f.DurMs = g.rng(100, 5000)
			} else {
				f.Kind = g.pickS("kill_resp", "err_noproc", "kill_req")
				f.Code = int16(g.pick(ErrCoordinatorLoadInProgress, ErrNotCoordinator, ErrCoordinatorNotAvailable))
			}
		case w < 90:
			f = Fault{Kind: "kill_any", Client: cl, Broker: int32(g.rng(-1, nbroker-1)), Key: -1, AtMs: g.rng(1, horizonMs)}
		case w < 95:
			f = Fault{Kind: g.pickS("partition", "dial_fail"), Client: cl, Broker: int32(g.rng(-1, nbroker-1)), Key: -1, AtMs: g.rng(1, horizonMs), DurMs: g.rng(100, 20000)}
		case w < 98:
			f = Fault{Kind: "half_open", Client: cl, Broker: int32(g.rng(-1, nbroker-1)), Key: -1, AtMs: g.rng(1, horizonMs)}
		default:
			f = Fault{Kind: "slow_broker", Broker: int32(g.rng(0, nbroker-1)), Key: -1, AtMs: g.rng(1, horizonMs), DurMs: g.rng(500, 10000), Arg: g.rng(50, 3000)}
		}
		g.fault(f)
	}
}

func (g *G) pickS(vals ...string) string { return vals[g.R.Intn(len(vals))] }

func (g *G) moves(n int, ntopics, nparts, horizonMs int64) {
	for i := 0; i < n; i++ {
		if g.pct(15) {
			g.P.Events = append(g.P.Events, Event{AtMs: g.rng(1, horizonMs), Kind: "shuffle"})
		} else {
			g.P.Events = append(g.P.Events, Event{AtMs: g.rng(1, horizonMs), Kind: "move", A: g.rng(0, ntopics-1), B: g.rng(0, nparts-1)})
		}
	}
}

func genProduce(prop string, seed uint64) *Plan {
	g := newG(prop, "produce", seed)
	k := g.P.K
	g.schedKnobs()
	nb := g.rng(1, 5)
	k["nbroker"] = nb
	nparts := g.rng(1, 4)
	k["nparts"] = nparts
	ntopics := g.rng(1, 2)
	k["ntopics"] = ntopics
	k["linger_ms"] = g.pick(0, 0, 5, 50)
	k["inflight"] = g.rng(1, 5)
	k["codec"] = g.pick(0, 0, 1, 2, 3, 4)
	k["req_overhead_ms"] = g.pick(500, 2000, 5000)
	k["retry_timeout_ms"] = g.pick(2000, 8000, 20000)
	k["max_buf_recs"] = 10000
	nclients := int(g.rng(1, 2))
	nactors := int(g.rng(1, 3))
	nops := int(g.rng(4, 30))
	horizon := int64(8000)
	recSize := func() int64 { return g.pick(10, 10, 40, 100, 300) }
	faultsN := int(g.rng(0, 6))
	if g.pct(20) {
		faultsN = 0
	}
	movesN := int(g.rng(0, 3))
	weights := map[string]int{"produce": 60, "try": 8, "sync": 4, "flush": 8, "sleep": 14, "abort": 0, "purge": 0, "cancel": 0, "close": 0}
	ctxCancelPct := 0
	switch prop {
	case "C01":
		weights["abort"], weights["purge"], weights["cancel"] = 3, 2, 4
		ctxCancelPct = 25
		k["cb_cancel_pct"] = g.pick(0, 10, 30)
		if g.pct(40) {
			k["max_buf_recs"] = g.pick(1, 2, 5, 20)
		}
		if g.pct(30) {
			k["manual_flush"] = 1
		}
		if g.pct(30) {
			k["retries"] = g.rng(0, 4)
		}
		if g.pct(30) {
			k["delivery_timeout_ms"] = g.rng(1000, 15000)
		}
		if g.pct(30) {
			g.P.Events = append(g.P.Events, Event{AtMs: g.rng(1, horizon), Kind: "create_late"})
		}
		if g.pct(10) {
			g.P.Events = append(g.P.Events, Event{AtMs: g.rng(1, horizon), Kind: "delete_topic", A: g.rng(0, ntopics-1)})
		}
		if g.pct(40) {
			// Close in the middle of the run, with partitions that the
			// latest metadata reports as leaderless and records buffered
			// for them (rejected produce or lingering)
			weights["close"] = 2
			for i := 0; i < int(g.rng(1, 3)); i++ {
				g.fault(Fault{Kind: "err_after", Broker: -1, Key: 3, Nth: int(g.rng(2, 10)), Code: ErrLeaderNotAvailable})
			}
			if g.pct(50) {
				g.fault(Fault{Kind: "err_noproc", Broker: -1, Key: 0, Nth: int(g.rng(1, 6)), Code: ErrNotLeader})
			}
			if g.pct(50) {
				k["linger_ms"] = g.pick(50, 500, 5000)
			}
			k["meta_min_ms"] = g.pick(100, 2000, 10000)
			k["meta_max_ms"] = 30000
		}
	case "C02":
		if g.pct(60) {
			k["retries"] = g.rng(1, 6)
		}
		if g.pct(60) {
			k["delivery_timeout_ms"] = g.rng(1000, 12000)
		}
		if g.pct(50) {
			k["produce_timeout_ms"] = g.pick(500, 1000, 3000)
		}
		if g.pct(10) {
			k["allow_cancel"] = 1
		}
		weights["try"], weights["sync"] = 2, 2
		nops = int(g.rng(10, 80))
		nactors = int(g.rng(1, 4))
		faultsN = int(g.rng(1, 14))
		if g.pct(8) {
			faultsN = 0
		}
		movesN = int(g.rng(0, 8))
		if g.pct(40) {
			// pipeline mode: several batches of one partition in flight,
			// a connection loss after the append, then a retriable error
			// on a resend with the retry budget exhausted
			k["nparts"], nparts = 1, 1
			k["ntopics"], ntopics = 1, 1
			k["linger_ms"] = 0
			k["retries"] = g.rng(1, 2)
			k["batch_max_bytes"] = g.pick(512, 1000012)
			weights["sleep"] = 4
			nactors = int(g.rng(2, 4))
			faultsN = 0
			base := int(g.rng(2, 12))
			g.fault(Fault{Kind: g.pickS("kill_resp", "kill_resp", "stall_resp"), Broker: -1, Key: 0, Nth: base, DurMs: g.rng(3000, 9000)})
			for i := 0; i < int(g.rng(1, 4)); i++ {
				g.fault(Fault{Kind: "err_noproc", Broker: -1, Key: 0, Nth: base + int(g.rng(1, 8)), Code: int16(g.pick(ErrNotLeader, ErrNotEnoughReplicas, ErrRequestTimedOut, ErrKafkaStorageError))})
			}
			if g.pct(50) {
				g.fault(Fault{Kind: "kill_resp", Broker: -1, Key: 0, Nth: base + int(g.rng(1, 6))})
			}
		}
		if g.pct(25) {
			// load errors in the metadata while batches are staged in a
			// request that has not been written yet (slow connection
			// set-up), at the retry limit; the logger yields
			for i := 0; i < int(g.rng(3, 6)); i++ {
				g.fault(Fault{Kind: "err_after", Broker: -1, Key: 3, Nth: int(g.rng(2, 14)), Code: ErrLeaderNotAvailable})
			}
			// connection set-up is slow: requests wait, built, behind it
			for i := 0; i < int(g.rng(2, 5)); i++ {
				g.fault(Fault{Kind: "delay_resp", Broker: -1, Key: 18, Nth: int(g.rng(1, 9)), DurMs: g.pick(200, 1000, 3000)})
			}
			movesN = int(g.rng(2, 8))
			k["retries"] = g.pick(0, 0, 1)
			k["log_yield_pct"] = g.pick(2, 10, 30)
			k["log_sleep_pct"] = g.pick(0, 30, 80)
			k["log_sleep_max_us"] = g.pick(5000, 300000, 2000000) // a synchronous remote log sink
			k["meta_max_ms"] = g.pick(500, 1000, 5000)
			k["meta_min_ms"] = g.pick(10, 100)
		}
	case "C03":
		if g.pct(40) {
			// promises that take simulated time: a record holds its slot
			// until its promise has returned
			k["prom_sleep_pct"] = g.pick(10, 30, 60)
			k["prom_sleep_us_max"] = g.pick(2000, 20000, 200000)
		}
		k["max_buf_recs"] = g.pick(1, 1, 2, 3, 5)
		if g.pct(40) {
			k["max_buf_bytes"] = g.pick(64, 200, 1000)
		}
		if g.pct(25) {
			k["manual_flush"] = 1
		}
		k["cb_cancel_pct"] = g.pick(0, 20, 50, 80)
		ctxCancelPct = 40
		weights["cancel"], weights["flush"], weights["try"] = 6, 14, 12
		nactors = int(g.rng(2, 4))
		faultsN = int(g.rng(0, 3))
		if g.pct(40) {
			g.fault(Fault{Kind: "slow_broker", Broker: int32(g.rng(0, nb-1)), Key: -1, AtMs: g.rng(1, 2000), DurMs: g.rng(1000, 8000), Arg: g.rng(50, 1500)})
		}
	case "C14":
		weights["abort"], weights["purge"], weights["cancel"] = 3, 2, 3
		ctxCancelPct = 20
		if g.pct(40) {
			k["max_buf_recs"] = g.pick(1, 3, 10)
		}
		if g.pct(30) {
			k["retries"] = g.rng(0, 4)
		}
		if g.pct(30) {
			g.P.Events = append(g.P.Events, Event{AtMs: g.rng(1, horizon), Kind: "create_late"})
		}
	case "C18":
		k["batch_max_bytes"] = g.pick(512, 700, 1024, 2048)
		k["max_write_bytes"] = g.pick(1024, 1500, 2048, 4096)
		if k["max_write_bytes"] < k["batch_max_bytes"]+300 {
			k["max_write_bytes"] = k["batch_max_bytes"] + 512
		}
		k["nparts"] = g.rng(2, 6)
		nparts = k["nparts"]
		k["linger_ms"] = g.pick(5, 50, 200)
		recSize = func() int64 { return g.pick(10, 40, 100, 200, 300, 420) }
		nops = int(g.rng(15, 60))
		faultsN = int(g.rng(0, 3))
		if g.pct(35) {
			// long topic names and several topics per request: the size
			// accounting of a request (names below v13, ids from v13 on)
			// against BrokerMaxWriteBytes
			k["topic_pad"] = g.pick(20, 60, 200)
			k["ntopics"] = g.rng(2, 4)
			ntopics = k["ntopics"]
			k["linger_ms"] = g.pick(50, 200, 1000)
			if k["max_write_bytes"] < k["batch_max_bytes"]+300+k["topic_pad"] {
				k["max_write_bytes"] = k["batch_max_bytes"] + 512 + k["topic_pad"]
			}
		}
		if g.pct(40) {
			// records carry the application's own, unordered timestamps
			k["user_ts_pct"] = g.pick(30, 70, 100)
		}
		if g.pct(30) {
			// a cluster of an older release
			k["produce_cap_all"] = g.pick(7, 9, 10, 11, 12, 12, 12)
		} else if g.pct(50) {
			// a rolling upgrade: brokers negotiate different produce
			// versions (zstd needs v7), batches are re-sent to another
			// broker after leader moves
			k["mixed_versions"] = 1
			k["old_produce_ver"] = g.pick(3, 5, 6, 6, 8, 12)
			k["old_produce_ver2"] = g.pick(3, 4, 7)
			if nb < 2 {
				nb = g.rng(2, 5)
				k["nbroker"] = nb
			}
			k["codec"] = g.pick(4, 4, 4, 1, 3)
			movesN = int(g.rng(2, 8))
			if g.pct(50) {
				g.fault(Fault{Kind: "err_noproc", Broker: -1, Key: 0, Nth: int(g.rng(1, 6)), Code: int16(g.pick(ErrNotLeader, ErrRequestTimedOut))})
			}
		}
	case "C29":
		// the run crosses the sequence wrap within its first batches
		k["nparts"] = g.rng(2, 4)
		nparts = k["nparts"] - 1 // the last partition only carries the warm-up record
		k["wrap_k"] = g.pick(1, 2, 5, 12, 40)
		k["linger_ms"] = g.pick(0, 5, 50)
		k["batch_max_bytes"] = g.pick(512, 1000012)
		if g.pct(50) {
			k["retries"] = g.rng(1, 6)
		}
		if g.pct(40) {
			k["delivery_timeout_ms"] = g.rng(2000, 12000)
		}
		weights["try"], weights["sync"], weights["sleep"] = 2, 2, 8
		nops = int(g.rng(10, 60))
		nactors = int(g.rng(1, 3))
		faultsN = 0
		movesN = int(g.rng(0, 4))
		nf := int(g.rng(0, 6))
		for i := 0; i < nf; i++ {
			f := Fault{Broker: -1, Key: 0, Nth: int(g.rng(2, 9))}
			switch x := g.R.Intn(100); {
			case x < 40:
				f.Kind = "kill_resp"
			case x < 55:
				f.Kind = "kill_req"
			case x < 80:
				f.Kind = "err_noproc"
				f.Code = int16(g.pick(ErrNotLeader, ErrNotEnoughReplicas, ErrRequestTimedOut))
			case x < 90:
				f.Kind = "err_after"
				f.Code = int16(g.pick(ErrRequestTimedOut, ErrNotEnoughReplicasAfterAppend))
			default:
				f.Kind = g.pickS("delay_resp", "stall_resp")
				f.DurMs = g.rng(100, 4000)
			}
			g.fault(f)
		}
	case "C13", "C41":
		if g.pct(40) {
			for i := 0; i < int(g.rng(1, 3)); i++ {
				g.fault(Fault{Kind: "err_after", Broker: -1, Key: 3, Nth: int(g.rng(2, 10)), Code: ErrLeaderNotAvailable})
			}
			if g.pct(50) {
				k["linger_ms"] = g.pick(50, 500, 5000)
			}
			k["meta_min_ms"] = g.pick(100, 2000, 10000)
			k["meta_max_ms"] = 30000
		}
		weights["abort"], weights["purge"], weights["cancel"] = 2, 1, 3
		ctxCancelPct = 20
		if g.pct(50) {
			k["max_buf_recs"] = g.pick(1, 2, 5, 20)
		}
	}
	if k["manual_flush"] != 0 {
		// ProduceSync under ManualFlushing needs someone else to flush; the
		// actors here would wait on themselves.
		weights["sync"] = 0
	}
	var clients []string
	for c := 0; c < nclients; c++ {
		clients = append(clients, fmt.Sprintf("p%d", c))
	}
	total := 0
	for _, w := range weights {
		total += w
	}
	pickKind := func() string {
		x := g.R.Intn(total)
		for _, kd := range []string{"produce", "try", "sync", "flush", "sleep", "abort", "purge", "cancel", "close"} {
			if x < weights[kd] {
				return kd
			}
			x -= weights[kd]
		}
		return "produce"
	}
	for _, cl := range clients {
		for a := 0; a < nactors; a++ {
			act := Actor{Name: fmt.Sprintf("%s.a%d", cl, a), Client: cl}
			n := int(g.rng(int64(nops/2)+1, int64(nops)))
			for i := 0; i < n; i++ {
				kd := pickKind()
				op := Op{Kind: kd}
				switch kd {
				case "produce", "try", "sync":
					op.A = g.rng(0, ntopics-1)
					if prop == "C01" || prop == "C14" {
						if g.pct(8) {
							op.A = -1
						} else if g.pct(4) {
							op.A = -2
						}
					}
					op.B = g.rng(0, nparts-1)
					op.C = recSize()
					if kd == "sync" {
						op.D = g.rng(1, 4)
					} else if g.pct(ctxCancelPct) {
						if g.pct(50) {
							op.D = -1
						} else {
							op.D = g.rng(1, 3000)
						}
					}
				case "flush":
					if g.pct(40) {
						op.D = g.rng(1, 5000)
					}
				case "sleep":
					op.A = g.pick(1, 5, 20, 100, 500, 2000)
				case "abort":
					op.D = 5000
				case "purge":
					op.A = g.rng(0, ntopics-1)
				}
				act.Ops = append(act.Ops, op)
			}
			g.P.Actors = append(g.P.Actors, act)
		}
	}
	g.produceFaults(faultsN, clients, nb, horizon, prop == "C02")
	g.moves(movesN, ntopics, nparts, horizon)
	return g.P
}

func init() {
	for _, p := range []string{"C01", "C02", "C03", "C18", "C29"} {
		p := p
		Generators[p] = func(seed uint64) *Plan { return genProduce(p, seed) }
	}
	// C14 covers both sides: produce hooks in the produce scenario, fetch
	// hooks (and the fetch gauges) in the direct-consumer scenarios, with
	// callbacks that take time.
	Generators["C14"] = func(seed uint64) *Plan {
		r := rand.New(rand.NewSource(int64(seed ^ 0xc14)))
		var p *Plan
		switch x := r.Intn(100); {
		case x < 50:
			p = genProduce("C14", seed)
		case x < 75:
			p = genConsume("C14", seed)
		default:
			p = genC39(seed)
			p.Prop = "C14"
		}
		if p.Scenario == "consume" && r.Intn(100) < 50 {
			// a second goroutine polling the same client (polls may be
			// concurrent; only the C14 oracles judge these plans)
			for _, a := range p.Actors {
				if strings.HasPrefix(a.Name, "poll.") {
					b := Actor{Name: "poll2." + a.Client, Client: a.Client, Ops: append([]Op(nil), a.Ops...)}
					p.Actors = append(p.Actors, b)
				}
			}
			if p.K["nbroker"] < 2 {
				p.K["nbroker"] = 3
			}
		}
		p.K["cb_yield_pct"] = []int64{0, 10, 40}[r.Intn(3)]
		p.K["cb_sleep_pct"] = []int64{0, 5, 20, 50}[r.Intn(4)]
		p.K["cb_sleep_us_max"] = []int64{3000, 20000}[r.Intn(2)]
		return p
	}
}
