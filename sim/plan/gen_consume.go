package plan

import "fmt"

// consumeFaults adds faults on the consumer's fetch path.
func (g *G) consumeFaults(n int, consumers []string, nbroker, horizonMs int64) {
	for i := 0; i < n; i++ {
		cl := consumers[g.R.Intn(len(consumers))]
		f := Fault{Client: cl, Broker: -1, Key: 1, Nth: int(g.rng(1, 40))}
		w := g.R.Intn(100)
		switch {
		case w < 20:
			f.Kind = "kill_resp"
		case w < 30:
			f.Kind = "kill_req"
		case w < 42:
			f.Kind = "err_noproc"
			f.Code = int16(g.pick(ErrFetchSessionIDNotFound, ErrInvalidFetchSessionEpoch, ErrNotLeader, ErrUnknownTopicOrPartition, ErrKafkaStorageError, ErrLeaderNotAvailable))
		case w < 52:
			f.Kind = g.pickS("delay", "delay_resp")
			f.DurMs = g.rng(10, 8000)
		case w < 60:
			f.Kind = g.pickS("stall", "stall_resp")
			f.DurMs = g.rng(100, 10000)
		case w < 72:
			// list offsets / offset for leader epoch / metadata
			f.Key = int16(g.pick(2, 23, 3))
			f.Nth = int(g.rng(1, 6))
			f.Kind = g.pickS("kill_resp", "kill_req", "delay_resp", "err_noproc")
			f.DurMs = g.rng(100, 5000)
			f.Code = int16(g.pick(ErrNotLeader, ErrLeaderNotAvailable, ErrUnknownTopicOrPartition))
		case w < 82:
			f = Fault{Kind: "kill_any", Client: cl, Broker: int32(g.rng(-1, nbroker-1)), Key: -1, AtMs: g.rng(1, horizonMs)}
		case w < 90:
			f = Fault{Kind: g.pickS("partition", "dial_fail"), Client: cl, Broker: int32(g.rng(-1, nbroker-1)), Key: -1, AtMs: g.rng(1, horizonMs), DurMs: g.rng(100, 15000)}
		case w < 95:
			f = Fault{Kind: "half_open", Client: cl, Broker: int32(g.rng(-1, nbroker-1)), Key: -1, AtMs: g.rng(1, horizonMs)}
		default:
			f = Fault{Kind: "throttle", Client: cl, Broker: -1, Key: 1, Nth: int(g.rng(1, 20)), Arg: g.rng(10, 2000)}
		}
		g.fault(f)
	}
}

func (g *G) consumerKnobs() {
	k := g.P.K
	k["fetch_max_wait_ms"] = g.pick(100, 300, 500, 1000)
	k["fetch_max_bytes"] = g.pick(200, 500, 1500, 5000, 50<<20)
	k["fetch_max_part_bytes"] = g.pick(100, 300, 1000, 1<<20)
	if g.pct(30) {
		k["no_sessions"] = 1
	}
	if g.pct(30) {
		k["max_conc_fetches"] = g.rng(1, 2)
	}
	if g.pct(20) {
		k["session_slots"] = g.rng(1, 2)
	}
	k["batch_max_bytes"] = g.pick(512, 1024, 4096, 1000012)
	k["req_overhead_ms"] = g.pick(500, 2000, 5000)
	k["retry_timeout_ms"] = g.pick(2000, 8000)
	k["meta_max_ms"] = g.pick(1000, 2000, 5000)
}

func (g *G) pollActor(client string) Actor {
	a := Actor{Name: "poll." + client, Client: client}
	n := int(g.rng(1, 6))
	for i := 0; i < n; i++ {
		op := Op{Kind: "poll", D: g.pick(200, 1000, 1000, 3000)}
		if g.pct(50) {
			op.A = g.rng(1, 7)
		}
		a.Ops = append(a.Ops, op)
		if g.pct(20) {
			a.Ops = append(a.Ops, Op{Kind: "sleep", A: g.pick(1, 50, 500)})
		}
	}
	return a
}

func (g *G) plainProducer(name string, topics []string, nparts int64, nops int, withTs bool) Actor {
	a := Actor{Name: "prod." + name, Client: name}
	for i := 0; i < nops; i++ {
		if g.pct(15) {
			a.Ops = append(a.Ops, Op{Kind: "sleep", A: g.pick(1, 20, 200, 1000)})
			continue
		}
		a.Ops = append(a.Ops, Op{Kind: "produce", S: topics[g.R.Intn(len(topics))], B: g.rng(0, nparts-1), C: g.pick(10, 40, 120, 300)})
	}
	return a
}

func (g *G) txnProducer(name string, topics []string, nparts int64, ntxn int, allowTimeout bool) Actor {
	a := Actor{Name: "prod." + name, Client: name}
	for t := 0; t < ntxn; t++ {
		a.Ops = append(a.Ops, Op{Kind: "begin"})
		n := int(g.rng(1, 6))
		for i := 0; i < n; i++ {
			a.Ops = append(a.Ops, Op{Kind: "produce", S: topics[g.R.Intn(len(topics))], B: g.rng(0, nparts-1), C: g.pick(10, 40, 120)})
			if g.pct(15) {
				a.Ops = append(a.Ops, Op{Kind: "sleep", A: g.pick(1, 50, 400)})
			}
		}
		switch {
		case allowTimeout && g.pct(8):
			a.Ops = append(a.Ops, Op{Kind: "txn_timeout", A: g.rng(3000, 9000)}, Op{Kind: "abort"})
		case g.pct(40):
			a.Ops = append(a.Ops, Op{Kind: "abort"})
		default:
			a.Ops = append(a.Ops, Op{Kind: "commit"})
		}
		if g.pct(30) {
			a.Ops = append(a.Ops, Op{Kind: "sleep", A: g.pick(1, 100, 1000)})
		}
	}
	return a
}

func genConsume(prop string, seed uint64) *Plan {
	g := newG(prop, "consume", seed)
	k := g.P.K
	g.schedKnobs()
	nb := g.rng(1, 4)
	k["nbroker"] = nb
	nparts := g.rng(1, 4)
	if prop == "C14" {
		// several sources with buffered fetches at once: that is when one
		// poll dispatches several batches of unbuffered hooks
		nb = g.rng(2, 5)
		k["nbroker"] = nb
		nparts = g.rng(2, 7)
	}
	k["nparts"] = nparts
	ntopics := g.rng(1, 2)
	// directed (C14): several topics in ONE buffered fetch (one broker), one
	// of them paused while its records sit in that fetch, and polls that take
	// one record at a time - the limit of a poll then runs out exactly at
	// every topic boundary of the fetch
	c14dir := prop == "C14" && g.pct(35)
	if c14dir {
		nb = 1
		k["nbroker"] = nb
		ntopics = g.rng(2, 3)
		nparts = g.rng(1, 2)
		k["nparts"] = nparts
	}
	k["ntopics"] = ntopics
	g.consumerKnobs()
	if c14dir {
		k["fetch_max_bytes"] = 50 << 20
		k["fetch_max_part_bytes"] = 1 << 20
	}
	var topics []string
	for i := int64(0); i < ntopics; i++ {
		topics = append(topics, fmt.Sprintf("t%d", i))
	}
	horizon := int64(10000)
	consumers := []string{"c0"}
	if g.pct(25) {
		consumers = append(consumers, "c1")
	}
	faultsN := int(g.rng(0, 8))
	if g.pct(15) {
		faultsN = 0
	}
	movesN := int(g.rng(0, 5))
	switch prop {
	case "C04", "C14", "C13", "C41":
		if prop == "C04" && g.pct(40) {
			// hooks that take time while a fetch response is being
			// processed, leader moves meanwhile
			k["cb_sleep_pct"] = g.pick(10, 40)
			k["cb_sleep_us_max"] = g.pick(3000, 100000, 1000000)
			movesN = int(g.rng(3, 10))
			k["meta_max_ms"] = g.pick(300, 1000)
		}
		g.P.Actors = append(g.P.Actors, g.plainProducer("w0", topics, nparts, int(g.rng(20, 150)), false))
		if g.pct(40) {
			k["read_committed"] = 1
			g.P.Actors = append(g.P.Actors, g.txnProducer("x0", topics, nparts, int(g.rng(1, 8)), false))
		}
		if g.pct(30) {
			k["rack"] = 1
			for i := 0; i < 3; i++ {
				g.P.Events = append(g.P.Events, Event{AtMs: g.rng(1, horizon), Kind: "followers", A: g.rng(0, ntopics-1), B: g.rng(0, nparts-1)})
			}
		}
	case "C05":
		k["read_committed"] = 1
		if g.pct(30) {
			k["keep_control"] = 1
		}
		k["txn_timeout_ms"] = g.pick(2000, 5000, 60000)
		k["after_heal_wait_ms"] = 12000
		nx := int(g.rng(1, 3))
		for i := 0; i < nx; i++ {
			g.P.Actors = append(g.P.Actors, g.txnProducer(fmt.Sprintf("x%d", i), topics, nparts, int(g.rng(2, 10)), k["txn_timeout_ms"] < 10000))
		}
		if g.pct(70) {
			g.P.Actors = append(g.P.Actors, g.plainProducer("w0", topics, nparts, int(g.rng(5, 60)), false))
		}
		faultsN = int(g.rng(0, 5))
	}
	for _, c := range consumers {
		if c14dir {
			pa := Actor{Name: "poll." + c, Client: c}
			pa.Ops = append(pa.Ops, Op{Kind: "sleep", A: g.pick(400, 800, 1500)})
			for i := 0; i < int(g.rng(5, 30)); i++ {
				pa.Ops = append(pa.Ops, Op{Kind: "poll", A: g.pick(1, 1, 1, 2), D: g.pick(200, 1000)})
			}
			ctl := Actor{Name: "ctl." + c, Client: c}
			for i := 0; i < int(g.rng(2, 6)); i++ {
				t := topics[g.R.Intn(len(topics))]
				ctl.Ops = append(ctl.Ops, Op{Kind: "sleep", A: g.pick(100, 300, 700)}, Op{Kind: "pause_t", S: t}, Op{Kind: "sleep", A: g.pick(500, 2000, 4000)}, Op{Kind: "resume_t", S: t})
			}
			g.P.Actors = append(g.P.Actors, pa, ctl)
			continue
		}
		g.P.Actors = append(g.P.Actors, g.pollActor(c))
		if g.pct(60) && prop != "C05" || g.pct(30) {
			ctl := Actor{Name: "ctl." + c, Client: c}
			n := int(g.rng(3, 25))
			for i := 0; i < n; i++ {
				t := topics[g.R.Intn(len(topics))]
				switch g.R.Intn(6) {
				case 0:
					ctl.Ops = append(ctl.Ops, Op{Kind: "pause_p", S: t, B: g.rng(0, nparts-1)})
				case 1:
					ctl.Ops = append(ctl.Ops, Op{Kind: "resume_p", S: t, B: g.rng(0, nparts-1)})
				case 2:
					ctl.Ops = append(ctl.Ops, Op{Kind: "pause_t", S: t})
				case 3:
					ctl.Ops = append(ctl.Ops, Op{Kind: "resume_t", S: t})
				default:
					ctl.Ops = append(ctl.Ops, Op{Kind: "sleep", A: g.pick(1, 50, 300, 1000)})
				}
			}
			g.P.Actors = append(g.P.Actors, ctl)
		}
	}
	g.consumeFaults(faultsN, consumers, nb, horizon)
	g.moves(movesN, ntopics, nparts, horizon)
	return g.P
}

func init() {
	for _, p := range []string{"C04", "C05"} {
		p := p
		Generators[p] = func(seed uint64) *Plan { return genConsume(p, seed) }
	}
}

func genC39(seed uint64) *Plan {
	g := newG("C39", "consume", seed)
	k := g.P.K
	g.schedKnobs()
	nb := g.rng(1, 4)
	k["nbroker"] = nb
	nparts := g.rng(1, 4)
	k["nparts"] = nparts
	ntopics := g.rng(1, 2)
	k["ntopics"] = ntopics
	g.consumerKnobs()
	k["meta_max_ms"] = g.pick(500, 1000, 2000)
	mode := g.pick(0, 1, 1, 2)
	k["sel_mode"] = mode
	horizon := int64(12000)
	type tinfo struct {
		name    string
		parts   int64
		atMs    int64
		created bool
	}
	var all []*tinfo
	for i := int64(0); i < ntopics; i++ {
		all = append(all, &tinfo{name: fmt.Sprintf("t%d", i), parts: nparts})
	}
	pool := []string{"in-a", "in-b", "in-c", "in-skip-a", "other-a", "in-int"}
	ncreate := int(g.rng(1, 5))
	for i := 0; i < ncreate; i++ {
		name := pool[g.R.Intn(len(pool))]
		dup := false
		for _, t := range all {
			if t.name == name {
				dup = true
			}
		}
		if dup {
			continue
		}
		ti := &tinfo{name: name, parts: g.rng(1, 3), atMs: g.pick(0, 0, g.rng(100, horizon/2)), created: true}
		all = append(all, ti)
		ev := Event{AtMs: ti.atMs, Kind: "create_topic", S: name, A: ti.parts}
		if name == "in-int" {
			ev.B = 1
		}
		g.P.Events = append(g.P.Events, ev)
	}
	// partition growth
	for _, t := range all {
		if g.pct(35) {
			np := t.parts + g.rng(1, 2)
			g.P.Events = append(g.P.Events, Event{AtMs: t.atMs + g.rng(500, horizon/2), Kind: "add_partitions", S: t.name, A: np})
			t.parts = np
		}
	}
	directed := false
	if mode == 1 && g.pct(30) {
		// a matching topic is deleted and created again under the same
		// name once the client considers the missing topic deleted and has
		// let go of it: "partitions of matching topics created later"
		var cands []*tinfo
		for _, t := range all {
			if t.created && t.name != "in-int" && t.name != "in-skip-a" && t.name != "other-a" {
				cands = append(cands, t)
			}
		}
		if len(cands) > 0 {
			t := cands[g.R.Intn(len(cands))]
			k["missing_deleted_ms"] = g.pick(1000, 3000, 8000)
			del := t.atMs + g.rng(2000, 5000)
			var evs []Event
			for _, ev := range g.P.Events {
				if ev.Kind == "add_partitions" && ev.S == t.name {
					continue // keep the partition count of the two incarnations simple
				}
				if ev.Kind == "create_topic" && ev.S == t.name {
					t.parts = ev.A
				}
				evs = append(evs, ev)
			}
			g.P.Events = append(evs, Event{AtMs: del, Kind: "delete_topic", S: t.name}, Event{AtMs: del + 1, Kind: "recreate_after_purge", S: t.name, A: t.parts + g.pick(0, 0, 1), B: g.pick(0, 300, 3000)})
			directed = true
		}
	}
	if !directed && g.pct(10) {
		t := all[g.R.Intn(len(all))]
		g.P.Events = append(g.P.Events, Event{AtMs: g.rng(horizon/2, horizon), Kind: "delete_topic", S: t.name})
	}
	// producers: a stream of records to every topic, spread over the horizon
	for w := 0; w < 2; w++ {
		a := Actor{Name: fmt.Sprintf("prod.w%d", w), Client: fmt.Sprintf("w%d", w)}
		n := int(g.rng(20, 80))
		for i := 0; i < n; i++ {
			t := all[g.R.Intn(len(all))]
			a.Ops = append(a.Ops, Op{Kind: "produce", S: t.name, B: g.rng(0, t.parts-1), C: g.pick(10, 40, 120)})
			if g.pct(35) {
				a.Ops = append(a.Ops, Op{Kind: "sleep", A: g.pick(10, 100, 400, 1000)})
			}
		}
		g.P.Actors = append(g.P.Actors, a)
	}
	consumers := []string{"c0"}
	g.P.Actors = append(g.P.Actors, g.pollActor("c0"))
	ctl := Actor{Name: "ctl.c0", Client: "c0"}
	n := int(g.rng(0, 10))
	for i := 0; i < n; i++ {
		t := all[g.R.Intn(len(all))]
		switch x := g.R.Intn(10); {
		case x < 3:
			ctl.Ops = append(ctl.Ops, Op{Kind: "sleep", A: g.pick(100, 500, 2000)})
		case x < 5 && mode != 2:
			ctl.Ops = append(ctl.Ops, Op{Kind: "purge", S: t.name})
		case x < 7 && mode == 0:
			ctl.Ops = append(ctl.Ops, Op{Kind: "add_topic", S: t.name})
		case x < 7 && mode == 2:
			// add then remove while the offset load may still be in flight
			pp := g.rng(0, max64(nparts, 1)-1)
			ctl.Ops = append(ctl.Ops, Op{Kind: "add_part", S: t.name, B: pp}, Op{Kind: "sleep", A: g.pick(0, 1, 5, 50, 300)}, Op{Kind: "remove_part", S: t.name, B: pp})
		case x < 8 && mode == 2:
			ctl.Ops = append(ctl.Ops, Op{Kind: "add_part", S: t.name, B: g.rng(0, max64(nparts, 1)-1)})
		case x < 10 && mode == 2:
			ctl.Ops = append(ctl.Ops, Op{Kind: "remove_part", S: t.name, B: g.rng(0, max64(nparts, 1)-1)})
		default:
			ctl.Ops = append(ctl.Ops, Op{Kind: "pause_t", S: t.name}, Op{Kind: "sleep", A: 200}, Op{Kind: "resume_t", S: t.name})
		}
	}
	if mode == 0 && g.pct(30) {
		// a partition of a whole-topic selection is removed, the topic is
		// purged and then added again: all of it is selected once more
		t := all[g.R.Intn(int(ntopics))]
		ctl.Ops = append(ctl.Ops, Op{Kind: "sleep", A: g.pick(100, 1000, 3000)}, Op{Kind: "remove_part", S: t.name, B: g.rng(0, nparts-1)},
			Op{Kind: "sleep", A: g.pick(0, 100, 1000)}, Op{Kind: "purge", S: t.name}, Op{Kind: "sleep", A: g.pick(0, 100, 2000)}, Op{Kind: "add_topic", S: t.name})
	}
	if len(ctl.Ops) > 0 {
		g.P.Actors = append(g.P.Actors, ctl)
	}
	faultsN := int(g.rng(0, 5))
	if g.pct(30) {
		faultsN = 0
	}
	g.consumeFaults(faultsN, consumers, nb, horizon)
	if mode == 2 || g.pct(30) {
		// trouble while start offsets are being loaded
		for i := 0; i < int(g.rng(1, 4)); i++ {
			f := Fault{Client: "c0", Broker: -1, Key: 2, Nth: int(g.rng(1, 6))}
			f.Kind = g.pickS("err_noproc", "err_noproc", "delay_resp", "kill_resp", "delay")
			f.Code = int16(g.pick(ErrLeaderNotAvailable, ErrNotLeader, ErrUnknownTopicOrPartition))
			f.DurMs = g.rng(200, 4000)
			g.fault(f)
		}
	}
	g.moves(int(g.rng(0, 2)), ntopics, nparts, horizon)
	k["fault_phase_ms"] = horizon + 8000
	return g.P
}

func max64(a, b int64) int64 {
	if a > b {
		return a
	}
	return b
}

func init() { Generators["C39"] = genC39 }

func genC40(seed uint64) *Plan {
	g := newG("C40", "startoffset", seed)
	k := g.P.K
	g.schedKnobs()
	nb := g.rng(1, 3)
	k["nbroker"] = nb
	nparts := g.rng(1, 3)
	k["nparts"] = nparts
	k["batch_max_bytes"] = g.pick(512, 1024, 1000012)
	k["linger_ms"] = g.pick(0, 5)
	k["fetch_max_wait_ms"] = g.pick(100, 300, 1000)
	k["fetch_max_bytes"] = g.pick(500, 5000, 50<<20)
	k["req_overhead_ms"] = g.pick(500, 2000)
	k["retry_timeout_ms"] = g.pick(2000, 8000)
	k["txn_timeout_ms"] = 30000
	if g.pct(40) {
		k["read_committed"] = 1
	}
	topics := []string{"t0"}
	// log content with chosen, partly non-monotonic timestamps
	w := Actor{Name: "prod.w0", Client: "w0"}
	n := int(g.rng(5, 60))
	ts := int64(1000000)
	nonMono := g.pct(20)
	if nonMono {
		k["ts_non_monotonic"] = 1
	}
	for i := 0; i < n; i++ {
		if !nonMono || g.pct(70) {
			ts += g.rng(0, 20)
		} else {
			ts -= g.rng(0, 30)
		}
		w.Ops = append(w.Ops, Op{Kind: "produce", S: "t0", B: g.rng(0, nparts-1), C: g.pick(10, 40, 120), D: ts})
		if g.pct(10) {
			w.Ops = append(w.Ops, Op{Kind: "sleep", A: g.pick(1, 20)})
		}
	}
	g.P.Actors = append(g.P.Actors, w)
	if g.pct(50) {
		x := g.txnProducer("x0", topics, nparts, int(g.rng(1, 4)), false)
		if g.pct(40) {
			// leave the last transaction open
			x.Ops = append(x.Ops, Op{Kind: "begin"}, Op{Kind: "produce", S: "t0", B: g.rng(0, nparts-1), C: 20})
		}
		for i := range x.Ops {
			if x.Ops[i].Kind == "produce" {
				if !nonMono || g.pct(70) {
					ts += g.rng(0, 20)
				} else {
					ts -= g.rng(0, 30)
				}
				x.Ops[i].D = ts
			}
		}
		g.P.Actors = append(g.P.Actors, x)
	}
	for q := int64(0); q < nparts; q++ {
		if g.pct(40) {
			k[fmt.Sprintf("del_p%d", q)] = g.rng(1, 12)
		}
	}
	k["start_kind"] = g.rng(1, 7)
	k["start_at"] = g.rng(-2, 40)
	k["start_rel"] = g.rng(0, 15)
	if k["start_kind"] == 2 && g.pct(50) {
		k["start_rel"] = -g.rng(0, 15)
	}
	k["start_ms"] = 1000000 + g.rng(-20, 200)
	k["start_opt"] = g.rng(0, 2)
	// faults while resolving
	nf := int(g.rng(0, 3))
	for i := 0; i < nf; i++ {
		f := Fault{Client: "c0", Broker: -1, Key: int16(g.pick(2, 2, 3, 1)), Nth: int(g.rng(1, 3))}
		f.Kind = g.pickS("kill_resp", "kill_req", "delay_resp", "err_noproc")
		f.DurMs = g.rng(100, 3000)
		f.Code = int16(g.pick(ErrNotLeader, ErrLeaderNotAvailable, ErrUnknownTopicOrPartition))
		g.fault(f)
	}
	if g.pct(30) && nb > 1 {
		g.P.Events = append(g.P.Events, Event{AtMs: g.rng(0, 300), Kind: "move", A: 0, B: g.rng(0, nparts-1)})
	}
	return g.P
}

func init() { Generators["C40"] = genC40 }
