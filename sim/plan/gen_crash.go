package plan

import "fmt"

// genC33Workload: one persistence workload (sim/scen_crash.go); the crash
// points of a run are the file-system operation indices congruent to
// crash_phase modulo crash_stride.
func genC33Workload(seed uint64) *Plan {
	g := newG("C33", "crash", seed)
	k := g.P.K
	k["nparts"] = g.rng(1, 3)
	k["segment_bytes"] = g.pick(300, 600, 2000, 100000)
	k["compact_bytes"] = g.pick(400, 900, 5000, 1000000)
	k["value_pad"] = g.pick(5, 40, 120)
	a := Actor{Name: "raw", Client: "raw0"}
	if g.pct(60) {
		a.Ops = append(a.Ops, Op{Kind: "init"})
	}
	n := int(g.rng(10, 45))
	restarts := 0
	for i := 0; i < n; i++ {
		switch x := g.R.Intn(100); {
		case x < 55:
			op := Op{Kind: "produce", B: g.rng(0, 2), C: g.rng(1, 3)}
			if g.pct(40) {
				op.D = 1
			}
			if g.pct(25) {
				op.S = fmt.Sprintf("n%d", g.rng(0, 2))
			}
			a.Ops = append(a.Ops, op)
		case x < 80:
			a.Ops = append(a.Ops, Op{Kind: "commit", A: g.rng(0, 1), B: g.rng(0, 2)})
		case x < 90:
			a.Ops = append(a.Ops, Op{Kind: "create", A: g.rng(0, 2)})
		default:
			if restarts < 2 {
				restarts++
				a.Ops = append(a.Ops, Op{Kind: "restart"})
				if g.pct(50) {
					a.Ops = append(a.Ops, Op{Kind: "init"})
				}
			}
		}
	}
	g.P.Actors = append(g.P.Actors, a)
	return g.P
}

func genC33(seed uint64) *Plan {
	p := genC33Workload(seed)
	p.K["crash_stride"] = 9
	p.K["crash_phase"] = int64(seed % 9)
	return p
}

// EnumC33: every crash point of a set of workloads (all phases of a stride).
func EnumC33(base uint64, nworkloads, stride int) []*Plan {
	var out []*Plan
	for w := 0; w < nworkloads; w++ {
		seed := (base*1000003 + uint64(w)*7919 + 17) & 0x7fffffffffff
		for ph := 0; ph < stride; ph++ {
			p := genC33Workload(seed)
			p.K["crash_stride"] = int64(stride)
			p.K["crash_phase"] = int64(ph)
			out = append(out, p)
		}
	}
	return out
}

func init() { Generators["C33"] = genC33 }
