package plan

import "fmt"

// genC22: concurrent request calls against response-stream mutations (see
// sim/scen_hostile.go for the mutation kinds).
func genC22(seed uint64) *Plan {
	g := newG("C22", "hostile", seed)
	k := g.P.K
	g.schedKnobs()
	nb := g.rng(1, 3)
	k["nbroker"] = nb
	k["req_overhead_ms"] = g.pick(500, 1000, 3000)
	k["retry_timeout_ms"] = g.pick(2000, 8000)
	k["request_retries"] = g.pick(0, 1, 3)
	k["cancel_on_nth_req"] = g.pick(0, 0, 3, 7)
	k["fault_phase_ms"] = 30000
	nclients := int(g.rng(1, 2))
	for c := 0; c < nclients; c++ {
		cl := fmt.Sprintf("h%d", c)
		for a := 0; a < int(g.rng(1, 3)); a++ {
			act := Actor{Name: fmt.Sprintf("a%d", a), Client: cl}
			n := int(g.rng(5, 25))
			for i := 0; i < n; i++ {
				switch x := g.R.Intn(100); {
				case x < 72:
					op := Op{Kind: "req", A: g.rng(0, 3), B: -1}
					if g.pct(60) {
						op.B = g.rng(0, nb-1)
					}
					if g.pct(55) {
						op.C = 1
					}
					switch y := g.R.Intn(100); {
					case y < 15:
						op.D = g.pick(50, 300, 1000, 4000)
					case y < 30:
						op.D = -1
					}
					act.Ops = append(act.Ops, op)
				case x < 92:
					act.Ops = append(act.Ops, Op{Kind: "sleep", A: g.pick(1, 5, 50, 300, 1500)})
				default:
					act.Ops = append(act.Ops, Op{Kind: "cancel"})
				}
			}
			g.P.Actors = append(g.P.Actors, act)
		}
	}
	untaintedOnly := g.pct(50)
	nf := int(g.rng(0, 7))
	if g.pct(10) {
		nf = 0
	}
	keys := []int64{-1, -1, -1, 3, 15, 10, 9, 18}
	for i := 0; i < nf; i++ {
		f := Fault{Broker: -1, Key: int16(keys[g.R.Intn(len(keys))]), Nth: int(g.rng(1, 14))}
		if g.pct(30) {
			f.Broker = int32(g.rng(0, nb-1))
		}
		switch x := g.R.Intn(100); {
		case x < 70:
			f.Kind = "corrupt"
			if untaintedOnly {
				f.Arg = g.rng(1, 5)
			} else {
				f.Arg = g.rng(1, 14)
			}
		case x < 80:
			f.Kind = g.pickS("delay_resp", "stall_resp")
			f.DurMs = g.pick(100, 900, 2500, 7000)
		case x < 90:
			f.Kind = g.pickS("kill_resp", "kill_req")
		default:
			f.Kind = "throttle"
			f.Arg = g.pick(50, 500, 3000)
		}
		g.fault(f)
	}
	if g.pct(25) {
		// a long throttle whose connection is reset while the client honours
		// it and still has a (delayed) response outstanding on it: requests
		// queued behind the throttle must not sleep it out on a connection
		// the client knows is gone
		g.P.K["long_throttle"] = 1
		for i := 0; i < int(g.rng(1, 2)); i++ {
			n := int(g.rng(2, 12))
			g.fault(Fault{Kind: "throttle", Broker: -1, Key: -1, Nth: n, Arg: g.pick(30000, 60000, 120000), DurMs: g.pick(300, 1000, 3000)})
			g.fault(Fault{Kind: "delay_resp", Broker: -1, Key: -1, Nth: n + 1, DurMs: 20000})
		}
	}
	return g.P
}

func init() { Generators["C22"] = genC22 }
