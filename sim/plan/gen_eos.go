package plan

import "fmt"

func genC10(seed uint64) *Plan {
	g := newG("C10", "eos", seed)
	k := g.P.K
	g.schedKnobs()
	nb := g.rng(1, 3)
	k["nbroker"] = nb
	nparts := g.rng(1, 5)
	k["nparts"] = nparts
	k["mode"] = g.pick(0, 1, 1, 2)
	k["heartbeat_ms"] = g.pick(300, 1000, 3000)
	k["session_ms"] = g.pick(20000, 30000, 45000)
	k["rebalance_ms"] = g.pick(30000, 60000)
	k["fetch_max_wait_ms"] = g.pick(100, 500)
	k["req_overhead_ms"] = g.pick(2000, 5000)
	k["retry_timeout_ms"] = g.pick(8000, 20000)
	k["txn_timeout_ms"] = g.pick(15000, 30000)
	k["process_ms"] = g.pick(0, 0, 10, 300)
	if g.pct(40) {
		// application time between a poll's return and Begin: a rebalance
		// can take the polled partitions away before the transaction opens
		k["pre_begin_ms"] = g.pick(100, 1000, 4000, 8000)
	}
	k["kafka_ver"] = g.pick(0, 0, 1)
	horizon := int64(40000)
	w := Actor{Name: "prod.w0", Client: "w0"}
	n := int(g.rng(20, 120))
	for i := 0; i < n; i++ {
		w.Ops = append(w.Ops, Op{Kind: "produce", S: "t0", B: g.rng(0, nparts-1), C: g.pick(10, 40)})
		if g.pct(30) {
			w.Ops = append(w.Ops, Op{Kind: "sleep", A: g.pick(10, 100, 500, 2000)})
		}
	}
	g.P.Actors = append(g.P.Actors, w)
	nslots := int(g.rng(1, 3))
	for sl := 0; sl < nslots; sl++ {
		a := Actor{Name: fmt.Sprintf("pattern%d", sl), Client: fmt.Sprintf("e%d", sl)}
		for i := 0; i < int(g.rng(1, 3)); i++ {
			op := Op{Kind: "poll", D: g.pick(200, 1000)}
			if g.pct(60) {
				op.A = g.rng(1, 10)
			}
			a.Ops = append(a.Ops, op)
		}
		g.P.Actors = append(g.P.Actors, a)
	}
	churn := Actor{Name: "churn", Client: "-"}
	churn.Ops = append(churn.Ops, Op{Kind: "join", A: 0})
	nchurn := int(g.rng(0, 8))
	for i := 0; i < nchurn; i++ {
		sl := g.rng(0, int64(nslots)-1)
		switch x := g.R.Intn(10); {
		case x < 3:
			churn.Ops = append(churn.Ops, Op{Kind: "sleep", A: g.pick(200, 1000, 3000, 8000)})
		case x < 6:
			churn.Ops = append(churn.Ops, Op{Kind: "join", A: sl})
		case x < 8:
			churn.Ops = append(churn.Ops, Op{Kind: "close", A: sl})
		default:
			churn.Ops = append(churn.Ops, Op{Kind: "restart", A: sl})
		}
		if g.pct(60) {
			churn.Ops = append(churn.Ops, Op{Kind: "sleep", A: g.pick(100, 1000, 4000)})
		}
	}
	g.P.Actors = append(g.P.Actors, churn)
	// faults on the transactional path and on the group path
	nf := int(g.rng(0, 6))
	if g.pct(15) {
		nf = 0
	}
	keys := []int64{0, 0, 26, 26, 28, 28, 25, 24, 22, 12, 11, 14, 68, 1, 9}
	for i := 0; i < nf; i++ {
		key := keys[g.R.Intn(len(keys))]
		f := Fault{Broker: -1, Key: int16(key), Nth: int(g.rng(1, 12))}
		if g.pct(50) {
			f.Client = fmt.Sprintf("e%d.0", g.rng(0, int64(nslots)-1))
		}
		switch x := g.R.Intn(100); {
		case x < 35:
			f.Kind = "kill_resp"
		case x < 50:
			f.Kind = "kill_req"
		case x < 65:
			f.Kind = g.pickS("delay", "delay_resp")
			f.DurMs = g.rng(10, 3000)
		case x < 72:
			f.Kind = g.pickS("stall", "stall_resp")
			f.DurMs = g.rng(100, 4000)
		default:
			f.Kind = "err_noproc"
			switch key {
			case 0:
				f.Code = int16(g.pick(ErrNotLeader, ErrRequestTimedOut))
			case 1, 9:
				f.Kind = "kill_resp"
			default:
				f.Code = int16(g.pick(ErrCoordinatorLoadInProgress, ErrNotCoordinator, ErrConcurrentTransactions))
				if key == 12 || key == 11 || key == 14 || key == 68 {
					f.Code = int16(g.pick(ErrCoordinatorLoadInProgress, ErrNotCoordinator))
				}
			}
			if key == 0 && g.pct(40) {
				f.Kind = "err_after"
				f.Code = int16(g.pick(ErrRequestTimedOut, ErrNotEnoughReplicasAfterAppend))
			}
		}
		g.fault(f)
	}
	if g.pct(30) && nslots >= 2 {
		// eviction mode: a member's EndTxn (often its first) stays in the
		// network longer than the rebalance time-out while another member
		// joins: the member inside End cannot rejoin, is evicted, its
		// partitions go to the other member before the transaction ends
		k["rebalance_ms"] = g.pick(2000, 3000, 5000)
		k["session_ms"] = g.pick(6000, 10000)
		k["heartbeat_ms"] = g.pick(300, 1000)
		k["txn_timeout_ms"] = 30000
		g.fault(Fault{Kind: "delay", Client: fmt.Sprintf("e%d.0", g.rng(0, 1)), Broker: -1, Key: 26, Nth: int(g.pick(1, 1, 1, 1, 2)), DurMs: k["rebalance_ms"] + g.rng(1500, 6000)})
		// the second member joins while that EndTxn is out
		for i := range g.P.Actors {
			if g.P.Actors[i].Name == "churn" {
				g.P.Actors[i].Ops = append([]Op{{Kind: "join", A: 0}, {Kind: "sleep", A: g.pick(200, 1000, 3000)}, {Kind: "join", A: 1}}, g.P.Actors[i].Ops[1:]...)
			}
		}
	}
	g.moves(int(g.rng(0, 3)), 2, nparts, horizon)
	if g.pct(30) {
		g.P.Events = append(g.P.Events, Event{AtMs: g.rng(1, horizon), Kind: "rehash"})
	}
	return g.P
}

func init() { Generators["C10"] = genC10 }
