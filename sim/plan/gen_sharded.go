package plan

import "fmt"

// genC23: sharded request kinds with generated item sets (sim/scen_sharded.go).
func genC23(seed uint64) *Plan {
	g := newG("C23", "sharded", seed)
	k := g.P.K
	g.schedKnobs()
	nb := g.rng(1, 5)
	k["nbroker"] = nb
	k["ntopics"] = g.rng(1, 3)
	k["nparts"] = g.rng(1, 6)
	k["ngroups"] = g.rng(0, 6)
	k["ntxn"] = g.rng(0, 3)
	if g.pct(30) {
		k["dups"] = 1
	}
	k["request_retries"] = g.pick(2, 6, 20)
	k["move_on_nth_req"] = g.pick(0, 0, 2, 3, 5, 9)
	k["req_overhead_ms"] = g.pick(500, 2000)
	k["retry_timeout_ms"] = g.pick(2000, 8000)
	horizon := int64(15000)
	for a := 0; a < int(g.rng(1, 3)); a++ {
		act := Actor{Name: fmt.Sprintf("a%d", a), Client: "s0"}
		for i := 0; i < int(g.rng(6, 30)); i++ {
			if g.pct(80) {
				op := Op{Kind: "req", A: g.rng(0, 13), B: g.R.Int63n(1 << 40)}
				if g.pct(60) {
					op.C = 1
				}
				act.Ops = append(act.Ops, op)
			} else {
				act.Ops = append(act.Ops, Op{Kind: "sleep", A: g.pick(1, 20, 200, 1000)})
			}
		}
		g.P.Actors = append(g.P.Actors, act)
	}
	nf := int(g.rng(0, 8))
	if g.pct(15) {
		nf = 0
	}
	leaderKeys := []int64{2, 21, 23, 61}
	coordKeys := []int64{9, 9, 15, 69, 42, 65, 10}
	for i := 0; i < nf; i++ {
		f := Fault{Client: "s0", Broker: -1, Nth: int(g.rng(1, 8))}
		switch x := g.R.Intn(100); {
		case x < 30:
			f.Kind = "err_noproc"
			f.Key = int16(leaderKeys[g.R.Intn(len(leaderKeys))])
			f.Code = int16(g.pick(ErrNotLeader, ErrLeaderNotAvailable, ErrUnknownTopicOrPartition))
		case x < 65:
			f.Kind = "err_noproc"
			f.Key = int16(coordKeys[g.R.Intn(len(coordKeys))])
			f.Code = int16(g.pick(ErrNotCoordinator, ErrCoordinatorLoadInProgress, ErrCoordinatorNotAvailable))
		case x < 80:
			f.Kind = g.pickS("kill_resp", "kill_req")
			f.Key = -1
		default:
			f.Kind = g.pickS("delay", "delay_resp")
			f.Key = -1
			f.DurMs = g.pick(50, 500, 3000)
		}
		g.fault(f)
	}
	for i := 0; i < int(g.rng(0, 4)); i++ {
		g.P.Events = append(g.P.Events, Event{AtMs: g.rng(1, horizon), Kind: g.pickS("move", "shuffle", "rehash"), A: g.rng(0, k["ntopics"]-1), B: g.rng(0, k["nparts"]-1)})
	}
	return g.P
}

func init() { Generators["C23"] = genC23 }
