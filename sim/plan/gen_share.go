package plan

import "fmt"

// genC12: share-group members with generated acknowledgement behaviour
// (sim/scen_share.go).
func genC12(seed uint64) *Plan {
	g := newG("C12", "share", seed)
	k := g.P.K
	g.schedKnobs()
	nb := g.rng(1, 3)
	k["nbroker"] = nb
	nparts := g.rng(1, 3)
	k["nparts"] = nparts
	k["lock_ms"] = g.pick(5000, 15000)
	k["share_max_records"] = g.pick(3, 10, 50)
	k["process_us"] = g.pick(0, 0, 200, 2000)
	k["fetch_max_wait_ms"] = g.pick(100, 300, 1000)
	k["run_ms"] = g.pick(5000, 15000)
	k["cb_yield_pct"] = g.pick(0, 10, 40)
	// (no sleeping in the acknowledgement callback: the share fetch loop
	// can spin while it has nothing to fetch, pushing an empty callback
	// entry per iteration; behind a callback that takes simulated time the
	// ring then grows without bound - CPU and memory burn, reported in
	// DESIGN.md as an observation, not a violation of a listed property)
	k["cb_sleep_pct"] = 0
	prod := Actor{Name: "prod", Client: "w0"}
	// in 40 % of the plans the producer is transactional: end-of-transaction
	// markers are offsets without records, which the client acknowledges on
	// its own ("gap" ranges) next to the application's acknowledgements
	txn := g.pct(40)
	if txn {
		k["txn_prod"] = 1
	}
	inTxn := 0
	for i := 0; i < int(g.rng(15, 90)); i++ {
		prod.Ops = append(prod.Ops, Op{Kind: "produce", B: g.rng(0, nparts-1)})
		inTxn++
		if txn && (inTxn >= 4 || g.pct(40)) {
			// (commits only: with the default share.isolation.level an
			// aborted record is delivered like any other, and whether it
			// counts as produced is not what this check is about)
			prod.Ops = append(prod.Ops, Op{Kind: "txn_end", A: 1})
			inTxn = 0
		}
		if g.pct(35) {
			prod.Ops = append(prod.Ops, Op{Kind: "sleep", A: g.pick(1, 20, 200, 1000)})
		}
	}
	if txn && inTxn > 0 {
		prod.Ops = append(prod.Ops, Op{Kind: "txn_end", A: 1})
	}
	g.P.Actors = append(g.P.Actors, prod)
	nm := int(g.rng(1, 3))
	for m := 0; m < nm; m++ {
		a := Actor{Name: fmt.Sprintf("member%d", m), Client: fmt.Sprintf("s%d", m)}
		for i := 0; i < int(g.rng(1, 5)); i++ {
			switch x := g.R.Intn(100); {
			case x < 70:
				a.Ops = append(a.Ops, Op{Kind: "poll", A: g.rng(1, 10), B: g.pick(0, 1, 1, 2, 3, 4), C: g.rng(0, 1), D: g.pick(200, 1000)})
			case x < 85:
				a.Ops = append(a.Ops, Op{Kind: "flush", D: 5000})
			default:
				a.Ops = append(a.Ops, Op{Kind: "sleep", A: g.pick(1, 50, 500, 1500)})
			}
		}
		hasPoll := false
		for _, op := range a.Ops {
			if op.Kind == "poll" {
				hasPoll = true
			}
		}
		if !hasPoll {
			a.Ops = append(a.Ops, Op{Kind: "poll", A: 5, B: 1, D: 500})
		}
		g.P.Actors = append(g.P.Actors, a)
	}
	horizon := int64(20000)
	if g.pct(55) {
		for i := 0; i < int(g.rng(1, 4)); i++ {
			g.P.Events = append(g.P.Events, Event{AtMs: g.rng(500, horizon), Kind: g.pickS("move", "move", "shuffle"), A: 0, B: g.rng(0, nparts-1)})
		}
	}
	if g.pct(30) && nm > 1 {
		g.P.Events = append(g.P.Events, Event{AtMs: g.rng(1000, horizon), Kind: "close_member", A: g.rng(0, int64(nm)-1)})
	}
	if g.pct(45) {
		for i := 0; i < int(g.rng(1, 3)); i++ {
			f := Fault{Broker: -1, Key: int16(g.pick(78, 78, 79)), Nth: int(g.rng(2, 20))}
			switch x := g.R.Intn(100); {
			case x < 40:
				f.Kind = "kill_resp"
			case x < 60:
				f.Kind = "kill_req"
			default:
				f.Kind = g.pickS("delay", "delay_resp")
				f.DurMs = g.pick(50, 500, 2500)
			}
			g.fault(f)
		}
	}
	return g.P
}

func init() { Generators["C12"] = genC12 }
