package plan

func microKnobs(g *G) {
	k := g.P.K
	k["sched"] = g.pick(0, 64, 128, 200)
	k["yield"] = g.pick(1024, 4096, 16384, 16384, 32768)
}

func genC30(seed uint64) *Plan {
	g := newG("C30", "micro_ring", seed)
	k := g.P.K
	microKnobs(g)
	k["ring_max"] = g.pick(0, 0, 1, 2, 4)
	k["pushers"] = g.rng(2, 5)
	k["per_pusher"] = g.rng(3, 14)
	k["force_pct"] = g.pick(0, 0, 30, 100)
	k["die_after"] = g.pick(-1, -1, -1, g.rng(1, 20))
	k["signallers"] = g.rng(2, 4)
	k["per_signaller"] = g.rng(3, 12)
	k["hard_pct"] = g.pick(0, 0, 20, 50)
	return g.P
}

func genMicroGate(seed uint64) *Plan {
	g := newG("C31", "micro_gate", seed)
	k := g.P.K
	microKnobs(g)
	k["poll_iters"] = g.rng(5, 30)
	k["rebalancers"] = g.rng(1, 3)
	k["reb_iters"] = g.rng(2, 8)
	k["records_pct"] = g.pick(30, 60, 90)
	k["allow_in_reb_pct"] = g.pick(0, 30, 80)
	// a second goroutine whose polls return nothing, uncoordinated with the
	// first goroutine's AllowRebalance: its release can land after
	// AllowRebalance has reset the poller count (the underflow guard of
	// unaddPoller exists for exactly this)
	if g.pct(40) {
		k["empty_poller"] = 1
	} else {
		k["empty_poller"] = 0
	}
	return g.P
}

func genMicroMutex(seed uint64) *Plan {
	g := newG("C31", "micro_mutex", seed)
	k := g.P.K
	microKnobs(g)
	k["goroutines"] = g.rng(2, 6)
	k["iters"] = g.rng(5, 25)
	return g.P
}

func init() {
	Generators["C30"] = genC30
	group := Generators["C31"]
	Generators["C31"] = func(seed uint64) *Plan {
		switch seed % 10 {
		case 0, 1, 2, 3:
			return group(seed)
		case 4, 5, 6, 7:
			return genMicroGate(seed)
		}
		return genMicroMutex(seed)
	}
}
