package plan

import "math/rand"

// genC13 takes a plan of one of the end-to-end scenarios and adds the closer:
// Close of one client at a generated point (time and/or n-th frame of a kind
// on that client's connections) with that client's network healthy, as the
// fault plan left it, refusing, black-holed or slow. See sim/closer.go.
func genC13(seed uint64) *Plan {
	r := rand.New(rand.NewSource(int64(seed ^ 0xc13c13)))
	var p *Plan
	var keys []int64
	switch x := r.Intn(100); {
	case x < 25:
		p = genProduce("C13", seed)
		keys = []int64{0, 0, 0, 3, 18, 22}
	case x < 45:
		p = genConsume("C13", seed)
		keys = []int64{1, 1, 1, 2, 3, 18, 23}
	case x < 80:
		p = genGroup("C13", seed)
		keys = []int64{1, 8, 9, 10, 11, 11, 12, 13, 14, 14, 68, 68, 3, 18}
	case x < 90:
		p = genC10(seed)
		keys = []int64{0, 1, 11, 14, 22, 24, 25, 26, 26, 28, 68}
	default:
		p = genC11(seed)
		keys = []int64{0, 22, 24, 26, 26}
	}
	p.Prop = "C13"
	k := p.K
	k["c13"] = 1
	k["c13_client"] = int64(r.Intn(4))
	if r.Intn(100) < 50 {
		k["c13_client"] = int64(r.Intn(2))
	}
	k["c13_after_ms"] = []int64{1, 50, 300, 1000, 3000, 8000, 20000}[r.Intn(7)]
	if r.Intn(100) < 65 {
		k["c13_nth"] = int64(1 + r.Intn(25))
		if r.Intn(100) < 40 {
			k["c13_nth"] = int64(1 + r.Intn(4))
		}
		k["c13_key"] = keys[r.Intn(len(keys))]
		if r.Intn(100) < 25 {
			k["c13_key"] = -1
		}
		k["c13_dir"] = int64(r.Intn(2))
		k["c13_after_ms"] = 30000 // fallback if the frame never comes
	}
	k["c13_net"] = []int64{0, 0, 1, 1, 2, 3, 3, 4, 5, 5}[r.Intn(10)]
	if r.Intn(100) < 60 {
		k["c13_lead_ms"] = []int64{50, 500, 2500, 6000, 15000}[r.Intn(5)]
	}
	k["c13_slow_ms"] = []int64{300, 1500, 4000}[r.Intn(3)]
	// a large request time-out separates "waits for nothing" from "waits
	// for a read deadline": a client outside any group must close within
	// seconds whatever the time-outs are
	k["req_overhead_ms"] = []int64{500, 2000, 5000, 60000}[r.Intn(4)]
	return p
}

func init() { Generators["C13"] = genC13 }

// genC41 draws a plan of any end-to-end scenario; the check runs it in the
// simulation binary built with the race detector, with seeded yields and
// run-queue randomisation always on. Callbacks take time (UserCode), and half
// of the plans also carry the C13 closer, so Close races everything else.
func genC41(seed uint64) *Plan {
	r := rand.New(rand.NewSource(int64(seed ^ 0xc41c41)))
	var p *Plan
	switch x := r.Intn(100); {
	case x < 20:
		p = genProduce("C41", seed)
	case x < 40:
		p = genConsume("C41", seed)
	case x < 55:
		p = genC39(seed)
	case x < 85:
		p = genGroup("C41", seed)
	case x < 93:
		p = genC10(seed)
	default:
		p = genC11(seed)
	}
	p.Prop = "C41"
	k := p.K
	if x := p.Scenario; x == "consume" && r.Intn(100) < 50 {
		// explicit partitions from exact offsets, some of them idle for the
		// whole run, while leader epochs move without the leader moving and
		// the client refreshes its metadata often
		k["sel_mode"] = 2
		k["idle_exact"] = 1
		k["meta_max_ms"] = []int64{300, 500, 1000}[r.Intn(3)]
		np := k["nparts"]
		if np < 1 {
			np = 1
		}
		for i, n := 0, 3+r.Intn(8); i < n; i++ {
			ev := Event{AtMs: int64(200 + r.Intn(12000)), Kind: "bump_epoch", S: "idle", B: int64(r.Intn(int(np)))}
			if r.Intn(100) < 30 {
				ev.S, ev.A = "", 0
			}
			p.Events = append(p.Events, ev)
		}
	}
	if k["yield"] == 0 {
		k["yield"] = []int64{256, 1024, 4096}[r.Intn(3)]
	}
	if k["sched"] == 0 {
		k["sched"] = []int64{16, 64, 128}[r.Intn(3)]
	}
	k["cb_yield_pct"] = []int64{0, 10, 40}[r.Intn(3)]
	k["cb_sleep_pct"] = []int64{0, 5, 20}[r.Intn(3)]
	if r.Intn(100) < 50 {
		k["c13"] = 1
		k["c13_client"] = int64(r.Intn(3))
		k["c13_after_ms"] = []int64{50, 1000, 3000, 8000, 20000}[r.Intn(5)]
		k["c13_net"] = []int64{0, 1, 1, 2, 3}[r.Intn(5)]
	}
	return p
}

func init() { Generators["C41"] = genC41 }
