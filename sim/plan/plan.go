// Package plan defines the explicit, replayable description of one simulated
// run: knobs, cluster shape, actor scripts, fault rules and environment
// events. A plan plus the simulation binary is a pure function to a result.
package plan

import (
	"encoding/json"
	"os"
)

// Plan is everything one run depends on.
type Plan struct {
	Prop     string           `json:"prop"`     // property whose emphasis generated this plan
	Scenario string           `json:"scenario"` // scenario function to run
	Seed     uint64           `json:"seed"`     // scheduler / latency / id seed
	K        map[string]int64 `json:"k"`        // knobs (all integers; durations in ms unless named _us)
	Actors   []Actor          `json:"actors,omitempty"`
	Faults   []Fault          `json:"faults,omitempty"`
	Events   []Event          `json:"events,omitempty"`
}

// Actor is one application goroutine following a script.
type Actor struct {
	Name   string `json:"name"`
	Client string `json:"client"` // which client it drives
	Ops    []Op   `json:"ops"`
}

// Op is one API operation of an actor script. The meaning of A..D and S
// depends on Kind and is documented at the scenario that interprets it.
type Op struct {
	Kind string `json:"kind"`
	A    int64  `json:"a,omitempty"`
	B    int64  `json:"b,omitempty"`
	C    int64  `json:"c,omitempty"`
	D    int64  `json:"d,omitempty"`
	S    string `json:"s,omitempty"`
}

// Fault is a trigger rule evaluated by the simulated network.
//
// Kinds: kill_req, kill_resp, kill_any, half_open, delay, stall, partition,
// dial_fail, partial_write, err_noproc, err_after, throttle, corrupt.
type Fault struct {
	Kind   string `json:"kind"`
	Client string `json:"client,omitempty"` // "" = any client
	Broker int32  `json:"broker"`           // -1 = any broker
	Key    int16  `json:"key"`              // api key, -1 = any
	Nth    int    `json:"nth,omitempty"`    // fire on the n-th matching frame (1-based); 0 = time-triggered
	AtMs   int64  `json:"at_ms,omitempty"`  // for time-triggered rules
	DurMs  int64  `json:"dur_ms,omitempty"` // delay/stall/partition length
	Code   int16  `json:"code,omitempty"`   // error code for err_noproc/err_after
	Arg    int64  `json:"arg,omitempty"`    // kind-specific (byte index, corruption kind, ...)
}

// Event is an environment event at a simulated time (leader move, topic
// creation, ...), interpreted by the scenario.
type Event struct {
	AtMs int64  `json:"at_ms"`
	Kind string `json:"kind"`
	A    int64  `json:"a,omitempty"`
	B    int64  `json:"b,omitempty"`
	S    string `json:"s,omitempty"`
}

// Violation is one oracle failure.
type Violation struct {
	Class string `json:"class"` // property/oracle/coarse-signature
	Msg   string `json:"msg"`
}

// Result is what a child process reports for one plan.
type Result struct {
	Prop       string           `json:"prop"`
	Seed       uint64           `json:"seed"`
	Violations []Violation      `json:"violations,omitempty"`
	OutOfScope string           `json:"out_of_scope,omitempty"`
	Stats      map[string]int64 `json:"stats"`
	TraceHash  string           `json:"trace_hash"`
	Summary    string           `json:"summary,omitempty"`
	Log        []string         `json:"log,omitempty"`
	Infra      string           `json:"infra,omitempty"` // harness trouble (never a violation)
}

func (p *Plan) Knob(name string, def int64) int64 {
	if v, ok := p.K[name]; ok {
		return v
	}
	return def
}

func Load(path string) (*Plan, error) {
	b, err := os.ReadFile(path)
	if err != nil {
		return nil, err
	}
	var p Plan
	if err := json.Unmarshal(b, &p); err != nil {
		return nil, err
	}
	if p.K == nil {
		p.K = map[string]int64{}
	}
	return &p, nil
}

func (p *Plan) Save(path string) error {
	b, err := json.MarshalIndent(p, "", " ")
	if err != nil {
		return err
	}
	return os.WriteFile(path, b, 0o644)
}

// Clone deep-copies a plan.
func (p *Plan) Clone() *Plan {
	b, _ := json.Marshal(p)
	var q Plan
	json.Unmarshal(b, &q)
	if q.K == nil {
		q.K = map[string]int64{}
	}
	return &q
}
