package plan

// genC32: one generated history of raw protocol requests against kfake
// (sim/scen_kfakelog.go).
func genC32(seed uint64) *Plan {
	g := newG("C32", "kfakelog", seed)
	k := g.P.K
	k["nbroker"] = g.rng(1, 2)
	nparts := g.rng(1, 3)
	k["nparts"] = nparts
	if g.pct(25) {
		k["session_slots"] = g.pick(1, 2)
	}
	a := Actor{Name: "raw", Client: "raw0"}
	// producer slots: 0,1 transactional or idempotent, 2 idempotent
	kinds := []string{g.pickS("txn", "txn", "idem"), g.pickS("txn", "idem"), "idem"}
	for i, kd := range kinds {
		if g.pct(85) {
			a.Ops = append(a.Ops, Op{Kind: "init", A: int64(i), S: kd})
		}
	}
	if kinds[0] == "txn" && kinds[1] == "txn" && g.pct(40) {
		// nested transactions of two producers on one partition, the outer
		// one ending last, both ending either way; then bounded
		// read_committed fetches from the start
		q := g.rng(0, nparts-1)
		a.Ops = append(a.Ops, Op{Kind: "init", A: 0, S: "txn"}, Op{Kind: "init", A: 1, S: "txn"},
			Op{Kind: "addparts", A: 0, B: q}, Op{Kind: "produce", A: 0, B: q, C: g.rng(1, 3)},
			Op{Kind: "addparts", A: 1, B: q}, Op{Kind: "produce", A: 1, B: q, C: g.rng(1, 3)},
			Op{Kind: "endtxn", A: 1, B: g.rng(0, 1)},
			Op{Kind: "produce", A: 0, B: q, C: g.rng(1, 3)},
			Op{Kind: "endtxn", A: 0, B: g.rng(0, 1)},
			Op{Kind: "produce", A: -1, B: q, C: 1})
		for i := 0; i < 3; i++ {
			a.Ops = append(a.Ops, Op{Kind: "fetch", A: -1, B: q, C: g.pick(0, 0, 20, 50), D: 1 + 2*g.pick(0, 1, 1, 2)})
		}
	}
	n := int(g.rng(20, 140))
	for i := 0; i < n; i++ {
		switch x := g.R.Intn(100); {
		case x < 45:
			slot := g.rng(-1, 2)
			part := g.rng(0, nparts-1)
			if slot >= 0 && kinds[slot] == "txn" && g.pct(88) {
				a.Ops = append(a.Ops, Op{Kind: "addparts", A: slot, B: part})
			}
			mode := int64(0)
			switch y := g.R.Intn(100); {
			case y < 10:
				mode = 1
			case y < 15:
				mode = 2
			case y < 25:
				mode = 3
			case y < 30:
				mode = 4
			}
			a.Ops = append(a.Ops, Op{Kind: "produce", A: slot, B: part, C: g.rng(1, 4), D: mode})
		case x < 55:
			a.Ops = append(a.Ops, Op{Kind: "endtxn", A: g.rng(0, 1), B: g.rng(0, 1)})
		case x < 60:
			a.Ops = append(a.Ops, Op{Kind: "init", A: g.rng(0, 2), S: kinds[g.R.Intn(3)]})
			a.Ops[len(a.Ops)-1].S = kinds[a.Ops[len(a.Ops)-1].A]
		case x < 66:
			a.Ops = append(a.Ops, Op{Kind: "delrecs", B: g.rng(0, nparts-1), C: g.pick(-1, 0, 30, 50, 80, 100, 100, 120)})
		case x < 76:
			a.Ops = append(a.Ops, Op{Kind: "listoffsets", A: g.pick(-1, -1, -2), B: g.rng(0, nparts-1), D: g.rng(0, 1)})
		case x < 96:
			op := Op{Kind: "fetch", A: g.rng(-1, 1), B: g.rng(0, nparts-1), D: g.rng(0, 1) + 2*g.pick(0, 0, 0, 1, 1, 2)}
			if op.A < 0 {
				op.C = g.pick(-5, 0, 0, 20, 50, 80, 100, 100, 120)
			} else if g.pct(8) {
				op.C = 1000
			}
			a.Ops = append(a.Ops, op)
		default:
			a.Ops = append(a.Ops, Op{Kind: "sleep", A: g.pick(1, 100, 1000)})
		}
	}
	g.P.Actors = append(g.P.Actors, a)
	return g.P
}

func init() { Generators["C32"] = genC32 }
