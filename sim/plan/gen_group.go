package plan

import "fmt"

// groupFaults: only faults that cannot fence a graceful member (short kills,
// delays well below the session and rebalance time-outs, retriable
// coordinator errors).
func (g *G) groupFaults(n int, horizonMs int64, commitEmphasis bool) {
	keys := []int64{1, 8, 9, 10, 11, 12, 14, 68, 3}
	for i := 0; i < n; i++ {
		key := keys[g.R.Intn(len(keys))]
		if commitEmphasis && g.pct(60) {
			key = 8
		}
		f := Fault{Client: "", Broker: -1, Key: int16(key), Nth: int(g.rng(1, 15))}
		if g.pct(60) {
			f.Client = fmt.Sprintf("m%d.0", g.rng(0, 2))
		}
		w := g.R.Intn(100)
		switch {
		case w < 30:
			f.Kind = "kill_resp"
		case w < 45:
			f.Kind = "kill_req"
		case w < 65:
			f.Kind = g.pickS("delay", "delay_resp")
			f.DurMs = g.rng(10, 3000)
		case w < 75:
			f.Kind = g.pickS("stall", "stall_resp")
			f.DurMs = g.rng(100, 4000)
		case w < 92:
			f.Kind = "err_noproc"
			f.Code = int16(g.pick(ErrCoordinatorLoadInProgress, ErrNotCoordinator, ErrCoordinatorNotAvailable))
			if key == 8 && g.pct(30) {
				f.Code = ErrRequestTimedOut
			}
			if key == 1 || key == 3 {
				f.Kind = "kill_resp"
			}
		default:
			f = Fault{Kind: "kill_any", Broker: -1, Key: -1, AtMs: g.rng(1, horizonMs)}
		}
		g.fault(f)
	}
}

func genGroup(prop string, seed uint64) *Plan {
	g := newG(prop, "group", seed)
	k := g.P.K
	g.schedKnobs()
	nb := g.rng(1, 3)
	k["nbroker"] = nb
	nparts := g.rng(2, 8)
	k["nparts"] = nparts
	ntopics := g.rng(1, 2)
	k["ntopics"] = ntopics
	k["heartbeat_ms"] = g.pick(300, 1000, 3000)
	k["session_ms"] = g.pick(20000, 30000, 45000)
	k["rebalance_ms"] = g.pick(30000, 60000)
	k["fetch_max_wait_ms"] = g.pick(100, 500, 1000)
	k["req_overhead_ms"] = g.pick(2000, 5000)
	k["retry_timeout_ms"] = g.pick(8000, 20000)
	k["batch_max_bytes"] = g.pick(512, 4096, 1000012)
	var topics []string
	for i := int64(0); i < ntopics; i++ {
		topics = append(topics, fmt.Sprintf("t%d", i))
	}
	horizon := int64(40000)
	nslots := int(g.rng(2, 4))
	nchurn := int(g.rng(3, 12))
	faultsN := int(g.rng(0, 6))
	if g.pct(20) {
		faultsN = 0
	}
	switch prop {
	case "C07":
		k["mode"] = g.pick(0, 1, 1, 2, 2, 2, 3)
		if g.pct(45) {
			// slow applications: a rebalance has to wait for the member
			// for several heartbeat intervals
			k["block_rebalance"] = 1
			k["process_ms"] = g.pick(800, 1500, 4000)
			k["heartbeat_ms"] = 300
		} else if g.pct(30) {
			k["revoke_sleep_ms"] = g.pick(500, 2000, 5000)
			k["heartbeat_ms"] = 300
		}
	case "C27":
		k["mode"] = 1
		if g.pct(45) {
			// stale-claimant family: a member's rejoin is stuck in the
			// network past its session time-out; it comes back with the
			// ownership claims of an old generation
			k["stale_family"] = 1
			nparts = 1
			k["nparts"] = 1
			k["min_session_ms"] = 1000
			k["session_ms"] = g.pick(3000, 5000, 8000)
			k["rebalance_ms"] = g.pick(6000, 12000)
			k["heartbeat_ms"] = g.pick(300, 1000)
			ntopics = g.rng(2, 3)
			k["ntopics"] = ntopics
			topics = topics[:0]
			for i := int64(0); i < ntopics; i++ {
				topics = append(topics, fmt.Sprintf("t%d", i))
				k[fmt.Sprintf("nparts_t%d", i)] = g.pick(1, 1, 2, 3, 4)
			}
		}
	case "C08":
		k["mode"] = g.pick(0, 1, 2)
		k["default_callbacks"] = 1
		k["autocommit_check"] = 1
		k["autocommit_ms"] = g.pick(200, 1000, 5000)
	case "C31":
		k["mode"] = g.pick(0, 1, 2)
		k["block_rebalance"] = 1
		k["process_ms"] = g.pick(0, 5, 100, 1500)
	case "C09":
		k["mode"] = g.pick(0, 1)
		k["disable_autocommit"] = 1
		faultsN = int(g.rng(1, 8))
		nslots = 1
		if g.pct(25) {
			nslots = 2
		}
		if g.pct(30) {
			// sparse topic: the committing member tracks only the
			// partitions that have data, then loses some of the others
			// to a second member in a cooperative rebalance and keeps
			// committing
			k["mode"] = g.pick(1, 1, 2)
			k["sparse"] = 1
			nslots = 2
			nparts = g.rng(3, 6)
			k["nparts"] = nparts
		}
		nchurn = 0
	case "C13", "C41":
		k["mode"] = g.pick(0, 1, 2)
		if g.pct(40) {
			k["block_rebalance"] = 1
		}
	}
	// producer
	w := Actor{Name: "prod.w0", Client: "w0"}
	n := int(g.rng(30, 160))
	slowApp := k["block_rebalance"] != 0 && k["process_ms"] >= 500
	if slowApp {
		n = int(g.rng(150, 300)) // a backlog, so that nearly every poll returns records
	}
	for i := 0; i < n; i++ {
		w.Ops = append(w.Ops, Op{Kind: "produce", S: topics[g.R.Intn(len(topics))], B: g.rng(0, nparts-1), C: g.pick(10, 40, 120)})
		if k["sparse"] != 0 {
			w.Ops[len(w.Ops)-1].B = 0
		}
		if g.pct(30) {
			if slowApp {
				w.Ops = append(w.Ops, Op{Kind: "sleep", A: g.pick(1, 10, 50)})
			} else {
				w.Ops = append(w.Ops, Op{Kind: "sleep", A: g.pick(10, 100, 500, 2000)})
			}
		}
	}
	g.P.Actors = append(g.P.Actors, w)
	// poll patterns
	for sl := 0; sl < nslots; sl++ {
		a := Actor{Name: fmt.Sprintf("pattern%d", sl), Client: fmt.Sprintf("m%d", sl)}
		np := int(g.rng(1, 4))
		for i := 0; i < np; i++ {
			op := Op{Kind: "poll", D: g.pick(200, 1000, 2000)}
			if g.pct(50) {
				op.A = g.rng(1, 10)
			}
			if slowApp {
				op.A = g.rng(1, 3)
			}
			a.Ops = append(a.Ops, op)
			if g.pct(20) {
				a.Ops = append(a.Ops, Op{Kind: "sleep", A: g.pick(1, 50, 500)})
			}
		}
		if (prop == "C08" || prop == "C04") && g.pct(50) {
			// partial polls around a paused partition: pause, a few small
			// PollRecords, resume (the pattern repeats, so every pause is
			// followed by its resume)
			t := topics[g.R.Intn(len(topics))]
			pp := g.rng(0, nparts-1)
			kind := g.pickS("pause_p", "pause_p", "pause_t")
			seq := []Op{{Kind: "poll", A: g.rng(1, 5), D: 500}, {Kind: kind, S: t, B: pp}}
			for i := 0; i < int(g.rng(1, 4)); i++ {
				seq = append(seq, Op{Kind: "poll", A: g.rng(1, 5), D: g.pick(200, 500)})
			}
			seq = append(seq, Op{Kind: "resume" + kind[5:], S: t, B: pp})
			a.Ops = append(a.Ops, seq...)
		}
		g.P.Actors = append(g.P.Actors, a)
	}
	churn := Actor{Name: "churn", Client: "-"}
	churn.Ops = append(churn.Ops, Op{Kind: "join", A: 0})
	if prop == "C09" {
		if nslots == 2 {
			churn.Ops = append(churn.Ops, Op{Kind: "sleep", A: g.rng(1000, 8000)}, Op{Kind: "join", A: 1})
		}
		sc := Actor{Name: "script0", Client: "m0"}
		ns := int(g.rng(8, 40))
		for i := 0; i < ns; i++ {
			switch x := g.R.Intn(10); {
			case x < 4:
				op := Op{Kind: "poll", D: g.pick(200, 1000)}
				if g.pct(50) {
					op.A = g.rng(1, 10)
				}
				sc.Ops = append(sc.Ops, op)
			case x < 5:
				sc.Ops = append(sc.Ops, Op{Kind: "sleep", A: g.pick(1, 50, 500)})
			default:
				op := Op{Kind: g.pickS("commit_async", "commit_async", "commit_async", "commit_sync", "commit_records", "commit_uncommitted")}
				if op.Kind == "commit_async" && g.pct(30) {
					op.D = g.pick(1, 5, 20, 100, 400)
				}
				if (op.Kind == "commit_async" || op.Kind == "commit_sync") && g.pct(12) {
					op.A = g.pick(1, 2, 5)
				}
				sc.Ops = append(sc.Ops, op)
			}
		}
		g.P.Actors = append(g.P.Actors, sc)
		churn.Ops = append(churn.Ops, Op{Kind: "sleep", A: g.rng(20000, 40000)})
	} else {
		if prop == "C27" && g.pct(25) && nslots >= 2 && ntopics >= 2 && k["stale_family"] == 0 {
			// one member stops consuming a topic that another member
			// still subscribes to: its partitions of that topic have to
			// reach the other member
			k["sub_split"] = g.pick(0, 1)
			k["c27_purge"] = 1
			churn.Ops = append(churn.Ops, Op{Kind: "sleep", A: g.pick(500, 3000)}, Op{Kind: "join", A: 1}, Op{Kind: "sleep", A: g.pick(3000, 6000)},
				Op{Kind: "purge", A: 0}, Op{Kind: "sleep", A: g.pick(3000, 8000)})
			nchurn = 0
		}
		if prop == "C07" && g.pct(20) && nslots >= 2 {
			// directed: a cooperative member is closed (or leaves) from
			// another goroutine while its revoke callback for partitions
			// it is giving up to a newcomer is still running
			k["mode"] = g.pick(1, 1, 2)
			k["revoke_sleep_ms"] = g.pick(2000, 5000)
			k["heartbeat_ms"] = 300
			delete(k, "block_rebalance")
			delete(k, "process_ms")
			churn.Ops = append(churn.Ops, Op{Kind: "sleep", A: g.pick(2000, 4000)}, Op{Kind: "join", A: 1},
				Op{Kind: "sleep", A: g.pick(300, 800, 1500, 2500)}, Op{Kind: g.pickS("close", "leave"), A: 0}, Op{Kind: "sleep", A: 3000})
		}
		for i := 0; i < nchurn; i++ {
			sl := g.rng(0, int64(nslots)-1)
			switch x := g.R.Intn(10); {
			case x < 3:
				churn.Ops = append(churn.Ops, Op{Kind: "sleep", A: g.pick(200, 1000, 3000, 8000, 15000)})
			case x < 6:
				churn.Ops = append(churn.Ops, Op{Kind: "join", A: sl})
			case x < 7:
				churn.Ops = append(churn.Ops, Op{Kind: "close", A: sl})
			case x < 8:
				churn.Ops = append(churn.Ops, Op{Kind: "leave", A: sl})
			default:
				churn.Ops = append(churn.Ops, Op{Kind: "restart", A: sl})
			}
			if g.pct(50) {
				churn.Ops = append(churn.Ops, Op{Kind: "sleep", A: g.pick(100, 1000, 4000)})
			}
		}
	}
	g.P.Actors = append(g.P.Actors, churn)
	if k["stale_family"] != 0 {
		for i := 0; i < int(g.rng(1, 3)); i++ {
			f := Fault{Kind: g.pickS("delay", "delay", "stall"), Client: fmt.Sprintf("m%d.0", g.rng(0, int64(nslots)-1)), Broker: -1, Key: 11, Nth: int(g.rng(2, 5)), DurMs: k["session_ms"] + g.rng(500, 6000)}
			g.fault(f)
		}
	}
	g.groupFaults(faultsN, horizon, prop == "C09")
	nm := int(g.rng(0, 3))
	g.moves(nm, ntopics, nparts, horizon)
	if g.pct(30) {
		g.P.Events = append(g.P.Events, Event{AtMs: g.rng(1, horizon), Kind: "rehash"})
	}
	return g.P
}

func init() {
	for _, p := range []string{"C07", "C08", "C09", "C27", "C31"} {
		p := p
		Generators[p] = func(seed uint64) *Plan { return genGroup(p, seed) }
	}
}
