#!/bin/bash
# Runs the repository's pinned baseline suite with the verif guard OFF (no
# build tags) and checks that every test in BASELINE.json's stable_pass
# passes. Usage: tools/baseline.sh [module-dir ...]  (default: all modules)
export GOFLAGS=-mod=mod GOPROXY=off
REPO=${REPO:-/repo}   # REPO=<scratch worktree> checks a seeded change there
export REPO
unset GOSUMDB GOTOOLCHAIN
LOG=$(mktemp /root/.cache/verif-baseline.XXXXXX.json 2>/dev/null || mktemp)
mods="$*"
if [ -z "$mods" ]; then
  if [ -f /w/out/gomods.txt ]; then mods=$(cat /w/out/gomods.txt); else
    mods=$(cd $REPO && find . -name go.mod -not -path './examples/*' -not -path './generate/*' | xargs -n1 dirname | sort); fi
fi
for m in $mods; do
  (cd $REPO/$m && go test -mod=mod -json -vet=off -count=1 -timeout 25m ./... 2>/dev/null)
done > "$LOG"
python3 - "$LOG" "$mods" <<'PY'
import json,sys
passed=set(); failed=set()
for l in open(sys.argv[1]):
    try: e=json.loads(l)
    except Exception: continue
    if e.get('Test') and e.get('Action') in ('pass','fail'):
        k=e['Package']+'::'+e['Test']
        (passed if e['Action']=='pass' else failed).add(k)
want=json.load(open('/root/.vp/BASELINE.json'))['stable_pass']
mods=sys.argv[2].split()
if mods and mods!=['.']:
    pass
missing=[t for t in want if t not in passed]
# restrict to packages that were run at all
ran={k.split('::')[0] for k in passed|failed}
missing=[t for t in missing if t.split('::')[0] in ran or len(sys.argv[2].split())>3]
# tests that did not pass are retried alone (the suite has load-sensitive tests)
import subprocess,collections,os
for attempt in range(3):
    if not missing: break
    bypkg=collections.defaultdict(list)
    for t in missing:
        pkg,name=t.split('::'); bypkg[pkg].append(name)
    for pkg,names in bypkg.items():
        top=sorted({n.split('/')[0] for n in names})
        d=os.environ.get('REPO','/repo')+'/'+pkg.replace('github.com/twmb/franz-go','').lstrip('/')
        out=subprocess.run(['go','test','-mod=mod','-json','-vet=off','-count=1','-timeout','25m','-run','^('+'|'.join(top)+')$','.'],cwd=d,capture_output=True,text=True).stdout
        for l in out.splitlines():
            try: e=json.loads(l)
            except Exception: continue
            if e.get('Test') and e.get('Action')=='pass': passed.add(e['Package']+'::'+e['Test'])
    missing=[t for t in missing if t not in passed]
print("baseline: %d stable tests expected, %d passed, %d not passing"%(len(want),len([t for t in want if t in passed]),len(missing)))
for t in missing[:40]: print("  NOT PASSING:",t)
sys.exit(1 if missing else 0)
PY
rc=$?
rm -f "$LOG"
exit $rc
