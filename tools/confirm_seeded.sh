#!/bin/bash
# tools/confirm_seeded.sh <seeded-dir> [mods...]: in a scratch worktree of /repo,
# (1) run the demonstration without the change (must pass), (2) apply the
# change, build, run the demonstration (must fail), (3) run the pinned baseline
# tests of the touched modules with the change (must pass). Removes the worktree.
d=$(realpath "$1"); shift
id=$(basename "$d")
wt=/tmp/wtc-$id
export GOFLAGS=-mod=mod GOPROXY=off; unset GOSUMDB GOTOOLCHAIN
git -C /repo worktree remove --force $wt >/dev/null 2>&1
git -C /repo worktree add --detach $wt HEAD >/dev/null 2>&1 || { echo "cannot create worktree"; exit 2; }
trap 'git -C /repo worktree remove --force $wt >/dev/null 2>&1; rm -rf $wt' EXIT
pkgdemo=""
if [ -f "$d/demo.go.mod" ]; then
  mkdir -p $wt/_demo
  cp "$d"/demo*_test.go $wt/_demo/ 2>/dev/null
  sed -E "s#/tmp/wt-[A-Za-z0-9_]+#$wt#g" "$d/demo.go.mod" > $wt/_demo/go.mod
  cat $wt/go.sum $wt/pkg/kfake/go.sum | sort -u > $wt/_demo/go.sum
  rundemo() { (cd $wt/_demo && go test -count=1 $(cat "$d/demo.flags" 2>/dev/null) ./... 2>&1 | tail -n 15); }
else
  # in-package demonstration: meta says where it goes
  pkgdemo=$(cat "$d/demo.pkgdir")
  cp "$d"/demo*_test.go $wt/$pkgdemo/
  rundemo() { (cd $wt/$pkgdemo && go test -vet=off -count=1 $(cat "$d/demo.flags" 2>/dev/null) -run "$(cat "$d/demo.run" 2>/dev/null || echo .)" . 2>&1 | tail -n 15); }
fi
N=${N:-3}
pass0=0; for i in $(seq $N); do out=$(rundemo); echo "$out" | grep -q "^ok\|^PASS" && ! echo "$out" | grep -q "^FAIL\|--- FAIL" && pass0=$((pass0+1)); done
echo "without change: demo passed $pass0/$N"
[ $pass0 -lt $N ] && echo "$out" | tail -5
git -C $wt apply "$d/patch.diff" || { echo "patch does not apply"; exit 2; }
(cd $wt && go build ./pkg/... ) || { echo "does not build"; exit 2; }
(cd $wt/pkg/kfake && go build ./... ) || { echo "kfake does not build"; exit 2; }
fail1=0; for i in $(seq $N); do out=$(rundemo); echo "$out" | grep -q "^FAIL\|--- FAIL\|panic:" && fail1=$((fail1+1)); done
echo "with change: demo failed $fail1/$N"
[ $fail1 -lt $N ] && echo "$out" | tail -5
if [ -n "$pkgdemo" ]; then rm -f $wt/$pkgdemo/demo*_test.go; fi
rm -rf $wt/_demo
mods="$*"; [ -z "$mods" ] && mods=$(git -C $wt diff --name-only | awk '/^pkg\/kfake\//{print "./pkg/kfake";next} /^pkg\/kadm\//{print "./pkg/kadm";next} /^pkg\/sr\//{print "./pkg/sr";next}{print "."}' | sort -u)
echo "baseline on: $mods"
REPO=$wt /verif/tools/baseline.sh $mods
echo "baseline exit $?"
