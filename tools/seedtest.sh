#!/bin/bash
# tools/seedtest.sh <seeded-dir> <prop> [check args...]: apply a seeded change to /repo, run the check, undo.
d=$(realpath $1); shift; prop=$1; shift
git -C /repo diff --quiet || { echo "repo dirty"; exit 2; }
git -C /repo apply "$d/patch.diff" || { echo "patch does not apply"; exit 2; }
/verif/check $prop "$@" ; rc=$?
git -C /repo checkout -- . 
echo "seedtest $d $prop -> exit $rc"
exit $rc
