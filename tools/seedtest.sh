#!/bin/bash
# tools/seedtest.sh <seeded-dir> <prop> [check args...]: apply a seeded change to /repo, run the check, undo.
d=$(realpath $1); shift; prop=$1; shift
git -C /repo diff --quiet || { echo "repo dirty"; exit 2; }
git -C /repo apply "$d/patch.diff" || { echo "patch does not apply"; exit 2; }
# VERIF_ADHOC: the evidence of a run on a deliberately broken tree goes to
# evidence/adhoc/, never over the committed evidence file
VERIF_ADHOC=1 /verif/check $prop "$@" ; rc=$?
git -C /repo checkout -- . 
echo "seedtest $d $prop -> exit $rc"
exit $rc
