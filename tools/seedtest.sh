#!/bin/bash
# tools/seedtest.sh <seeded-dir> <prop> [check args...]: run a check against a
# seeded change. The change is applied to a scratch worktree of /repo (never to
# /repo itself), the check builds from it (VERIF_REPO), the worktree is removed.
d=$(realpath $1); shift; prop=$1; shift
wt=/tmp/seedwt-$$
git -C /repo worktree add --detach $wt HEAD >/dev/null 2>&1 || { echo "cannot create worktree"; exit 2; }
trap 'git -C /repo worktree remove --force $wt >/dev/null 2>&1; rm -rf $wt' EXIT
git -C $wt apply "$d/patch.diff" || { echo "patch does not apply"; exit 2; }
# VERIF_ADHOC: the evidence of a run on a deliberately broken tree goes to
# evidence/adhoc/, never over the committed evidence file; replays of such
# runs go to replays/seeded/
VERIF_ADHOC=1 VERIF_REPO=$wt /verif/check $prop "$@" ; rc=$?
echo "seedtest $d $prop -> exit $rc"
exit $rc
