#!/bin/bash
# tools/intake.sh <worktree-tag> <seeded-id> <prop> [demo flags]: collect a sub-agent's seeded change, confirm it, run the property's quick check against it.
tag=$1; id=$2; prop=$3; flags=$4
/verif/tools/collect_seeded.sh $tag $id > /root/wave/intake-$id.log 2>&1 || { echo "collect failed for $id"; exit 1; }
[ -n "$flags" ] && echo "$flags" > /verif/seeded/$id/demo.flags
( /verif/tools/confirm_seeded.sh /verif/seeded/$id >> /root/wave/intake-$id.log 2>&1
  echo "--- seedtest" >> /root/wave/intake-$id.log
  /verif/tools/seedbatch.sh $id:$prop >> /root/wave/intake-$id.log 2>&1 ) &
