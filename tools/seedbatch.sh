#!/bin/bash
# tools/seedbatch.sh "<seeded-id>:<prop>[:extra args]" ... : run checks against seeded changes one after the other, summary to stdout
for x in "$@"; do
  IFS=: read -r sd prop extra <<< "$x"
  out=$(/verif/tools/seedtest.sh /verif/seeded/$sd $prop --tier quick --noshrink $extra 2>&1)
  echo "$sd $prop: $(echo "$out" | grep -c '^VIOLATION') classes [$(echo "$out" | grep '^  class=' | sed 's/  class=//;s/ seed=.*//' | tr '\n' ' ')] :: $(echo "$out" | grep "^$prop quick:")"
done
