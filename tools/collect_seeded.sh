#!/bin/bash
# tools/collect_seeded.sh <worktree-tag> <seeded-id>: copy a sub-agent's deliverables from /tmp/wt-<tag>/_out
# into /verif/seeded/<id>/ and remove the scratch worktree.
tag=$1; id=$2; wt=/tmp/wt-$tag; out=/verif/seeded/$id
[ -d $wt/_out ] || { echo "no $wt/_out"; exit 1; }
mkdir -p $out
cp $wt/_out/patch.diff $out/patch.diff
for f in $wt/_out/demo*_test.go $wt/_out/*_demo_test.go; do [ -f "$f" ] && cp "$f" $out/; done
[ -f $wt/_out/demo.go.mod ] && cp $wt/_out/demo.go.mod $out/
[ -f $wt/_out/README.md ] && cp $wt/_out/README.md $out/AGENT_README.md
git -C /repo worktree remove --force $wt && rm -rf $wt
ls $out; grep '^+++ ' $out/patch.diff
