#!/usr/bin/env python3
# Regenerates /verif/MANIFEST.json from the table below (kept in one place so
# that the manifest stays valid as checks come online).
import json
NA = {
 "C06":"pure function of response bytes (ProcessFetchPartition): no schedule, clock, fault or interleaving in the statement",
 "C15":"pure encode/decode of field values against the protocol definitions",
 "C16":"pure function of a byte string (decoder totality)",
 "C17":"pure arithmetic on integers and byte slices",
 "C19":"pure function of bytes and codec",
 "C20":"pure function of (record, layout)",
 "C24":"static table lookups",
 "C25":"pure function of member metadata (end-to-end effect covered by C07/C27)",
 "C26":"pure function of member metadata",
 "C28":"single-threaded functions of (key, n, call sequence)",
 "C34":"pure function of (ACL set, query)",
 "C35":"pure function of described groups and offsets",
 "C36":"pure encode/decode",
 "C37":"map semantics over a header slice",
 "C38":"pure functions of a Fetches value",
}
ALL = ["C%02d" % i for i in range(1, 42)]
BASE = "broker is kfake; faults limited to those a deployment produces; preemption explored at synchronisation points of pkg/kgo; sampled, not exhaustive"
TECH = "deterministic simulation with fault injection: seeded search over plans x schedules (kgo + kfake in one synctest bubble, simulated network, seeded Go scheduler), history and wire oracles"
CHECKS = {
 "C01": ("exploration", "seeded exploration of producer workloads (Produce/TryProduce/ProduceSync/Flush/Abort/Purge/Close, unknown and late topics, cancellations from promise callbacks) under network and broker faults; oracle: exactly one promise per record, gauges zero, Flush returns, promises after Close", BASE),
 "C02": ("exploration", "seeded exploration with lost responses, rewritten responses (timeout after append), fabricated retriable errors, leader moves, small retry/timeout limits; oracle over the final raw log read with the simulator's own client and reference decoder: acked once at promised offset, in order; failed absent", BASE),
 "C03": ("exploration", "seeded exploration with tiny buffer limits, concurrent producers/flushers, event-triggered cancellation; oracles: occupancy of accepted-unpromised records from the history, TryProduce never blocks, Flush nil => all earlier records promised, no caller blocked on a healthy cluster after heal", BASE),
 "C04": ("exploration", "direct consumers (topics/partitions, PollFetches and PollRecords(n), pause/resume, small fetch limits, session eviction, preferred replicas) under fetch-path faults and leader moves; oracle against the final raw log: per partition strictly increasing offsets, no duplicate, no gap, complete after heal", BASE),
 "C05": ("exploration", "transactional producers (commit/abort/time-out, left-open transactions) sharing partitions with plain producers while read_committed consumers poll; oracle against the reference committed view computed from the markers in the raw log; completeness after heal", BASE),
 "C07": ("exploration", "group members (eager range/sticky, cooperative-sticky, KIP-848) join, leave, close and restart gracefully under non-fencing faults, leader moves and coordinator rehash; ownership monitor over the rebalance callbacks (assign entry vs revoke/lost return), Close must release everything through a callback, convergence to exactly one live owner per partition after membership settles", BASE + "; runs in which the wire monitor sees a member fenced by the broker are counted out of scope"),
 "C08": ("exploration", "group scenario with DEFAULT callbacks and autocommit: every OffsetCommit request seen on the wire may only cover records that some member returned from a poll and then polled again; final committed offsets only cover delivered records", BASE),
 "C09": ("exploration", "one member issues CommitOffsets/CommitOffsetsSync/CommitRecords/CommitUncommittedOffsets sequences under commit-path faults and coordinator moves; oracle: arrival order of OffsetCommit requests at the coordinator respects issue order, final broker value and CommittedOffsets equal the last successful commit", BASE),
 "C27": ("exploration", "cooperative-sticky groups under churn: every SyncGroup plan sent by the leader is checked against the ownership claims of the same generation's JoinGroup metadata; generations completed after membership settled are bounded", BASE + "; the space of prior ownership states is only sampled through the histories the churn produces"),
 "C31": ("exploration", "system-level half: with BlockRebalanceOnPoll no revoke/lost callback starts between a poll that returned records and the following AllowRebalance; deadlock-freedom through the bounded-liveness checks of the group scenario", BASE + "; 60% of the plans are the micro scenarios (gate functions through a verif-tagged wrapper around a bare consumer; synctest Mutex/RWMutex under lock/rlock/trylock mixes) with occupancy oracles"),
 "C10": ("exploration", "GroupTransactSession pipeline (input topic -> one output per input) with 1-3 session members that join, close and restart (also mid-transaction), following the documented error protocol (an error from Begin/End closes and replaces the member), under transactional/group-path faults, leader moves and coordinator rehash; oracle on the reference read_committed view of the output: no duplicate, nothing missing after heal", BASE),
 "C11": ("fault_enumeration", "transactional producer workloads; every single fault (kill_req, kill_resp, fabricated retriable/fatal coordinator errors incl. CONCURRENT_TRANSACTIONS, rewritten responses, stall past the transaction time-out) at every position of InitProducerID/AddPartitionsToTxn/Produce/EndTxn, with KIP-890p2 on and off, plus sampled double faults and coordinator moves; oracle: reported commit => visible, reported abort/error => never visible (also after two later commits), unconfirmed outcome (broker executed a commit the client could not confirm) => atomic", BASE + "; the enumeration is complete for the listed positions/kinds of the base workloads, sampled beyond"),
 "C13": ("exploration", "every end-to-end scenario (produce, direct consume, group incl. KIP-848 and BlockRebalanceOnPoll, GroupTransactSession, transactional producer) with one extra plan element: Close (CloseAllowingRebalance when rebalances are blocked) of one client from a goroutine of its own at a generated simulated time or at the n-th request/response frame of a kind on its connections, with that client's network healed, as the fault plan left it, refusing, black-holed, slow or a frozen peer (accepts, never answers), the network change optionally preceding the Close; oracles: Close returns within a bound computed from the configured time-outs (5 s for a client that only produces), polls afterwards report ErrClientClosed, every buffered record's promise runs within 30 s, no client goroutine exists 2 min after all clients are closed", BASE + "; the bound is derived from the dial/request/retry/rebalance time-outs of the plan, so a Close that waits one extra request time-out inside a group leave is within it; share-group clients are not covered"),
 "C14": ("exploration", "hook recorders in producer runs (buffered/unbuffered exactly once per record with the promise's error) and in direct-consumer runs (OnFetchRecordBuffered/Unbuffered exactly once per record, fetch gauges zero after Close), with callbacks that take simulated time or yield, several sources per poll, a second goroutine polling the same client, pause/resume/add/remove/purge from another goroutine", BASE),
 "C41": ("exploration", "the simulation binary built with the Go race detector runs plans of every end-to-end scenario (produce, direct consume with pause/resume/add/remove/purge, group, GroupTransactSession, transactional producer; half of them with the C13 closer) under seeded yields and run-queue randomisation; a race report with a pkg/kgo frame in one of the two conflicting accesses is a violation and replays because the run is deterministic", "the race detector sees only the interleavings the seeded scheduler produces; about 0.7 s per run, so a few hundred (quick) to a few thousand (thorough) runs; reports between harness/kfake code only are counted, not judged"),
 "C18": ("exploration", "wire monitor decodes every Produce request that reaches a broker with kmsg + an independent record-batch decoder: one batch per partition, CRC, counts, deltas, timestamps, producer fields, sequence reuse against the broker's genuine verdict, request <= BrokerMaxWriteBytes, batch <= ProducerBatchMaxBytes; knobs force the limits (1-4 KiB)", BASE + "; produce v0-v2 (message sets) are not reachable because kfake rejects them"),
 "C30": ("exploration", "micro scenario (no network): the real ring[int] and workLoop of pkg/kgo through verif-tagged wrappers, 2-5 pushers (blocking and forced), worker spawn on first push exactly as the callers do it, kill, growth and shrink, bounded and unbounded rings; 2-4 signallers against the work latch incl. hard finishes with the documented compensation; seeded yields before every lock/cond/atomic; oracle: accepted => handed to exactly one worker invocation, per-pusher and real-time push order, one worker at a time, dead ring rejects, no pusher or worker left blocked, no pending work without a worker", "preemption explored at the synchronisation points of pkg/kgo's ring.go/atomic_maybe_work.go (seeded yields + seeded run-queue choices); sampled, not exhaustive; an uncompensated hardFinish may strand work by design and is not generated"),
 "C39": ("exploration", "direct consumers selecting by topic list, regex with exclusion, or explicit partitions while topics are created (matching, non-matching, internal), grown and deleted and the application adds/removes/purges; oracle: every returned record is selected as of its poll, nothing after remove/purge, everything selected is consumed after heal", BASE),
 "C40": ("exploration", "logs built with chosen timestamps, transactions and DeleteRecords; consumer started with a generated Offset (At/Relative/AtStart/AtEnd/AfterMilli, three ways of passing it, read_committed or not) under ListOffsets faults and leader moves; oracle: first returned record == reference computation of the documented rules on the raw log", BASE + "; AtCommitted is not covered by this scenario"),
}
def chk(pid, level, text, note):
    return {"property_id": pid, "quick_cmd": "./check %s --tier quick" % pid, "thorough_cmd": "./check %s --tier thorough" % pid,
      "evidence_file": "/verif/evidence/%s.json" % pid, "replay_cmd_template": "./check --replay {path}", "engine": "dst",
      "level_claimed": {"category": level, "text": text, "design_ref": "DESIGN.md section 7 (%s)" % pid}, "level_note": note, "technique": TECH}
checks = [chk(p, *CHECKS[p]) for p in sorted(CHECKS)]
na = [{"property_id": k, "reason": v} for k, v in NA.items()]
na += [{"property_id": p, "reason": "not yet claimed: the simulation scenario for this property is under construction (see DESIGN.md section 7)"} for p in ALL if p not in NA and p not in CHECKS]
hooks = json.load(open('/verif/tools/hooks.json')) if __import__('os').path.exists('/verif/tools/hooks.json') else []
m = {"version": 1, "setup_cmd": "./check build",
 "hooks": {"guard": "verif", "enable": "go1.26.8 test -c -tags synctests,verif,verifrt -overlay <generated> (see sim/cmd/simctl/build.go); 'synctests' is the repository's own tag, 'verif' guards the added hook files", "baseline_off_cmd": "tools/baseline.sh", "source_commits": hooks, "add_only": True},
 "engines": [{"name": "dst", "path": "/verif/sim", "serves_properties": sorted(CHECKS), "kind_free_text": "deterministic whole-system simulator: kgo + kfake in one testing/synctest bubble, SimNet transport, seeded Go runtime (overlay), plan generator, shrinker, replay"}],
 "checks": checks,
 "notes": "Genuine defects found and repaired are listed in known_findings.json ('fixed'); recorded ones under 'known'.",
 "not_applicable": na}
json.dump(m, open('/verif/MANIFEST.json', 'w'), indent=1)
print(len(checks), "checks")
