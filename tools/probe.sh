#!/bin/bash
# Re-creates the way /verif is exercised: fresh binary cache, harness env,
# MANIFEST.setup_cmd, then every quick (or $1=thorough) command once with its
# evidence file removed first. Prints one line per check; logs in $OUT.
cd /verif || exit 2
export CARGO_NET_OFFLINE=true GOPROXY=off PIP_NO_INDEX=1 VERIF_SEED=${VERIF_SEED:-1} VERIF_TIER=${1:-quick}
OUT=${OUT:-/root/.cache/verif-probe}; mkdir -p "$OUT"
rm -rf "$HOME/.cache/verif-bin"
setup=$(jq -r .setup_cmd MANIFEST.json)
bash -c "$setup" > "$OUT/setup.log" 2>&1 || { echo "setup FAILED"; exit 2; }
rc=0
for id in $(jq -r '.checks[].property_id' MANIFEST.json); do
  [ -n "$ONLY" ] && [[ " $ONLY " != *" $id "* ]] && continue
  cmd=$(jq -r --arg id $id --arg t ${VERIF_TIER}_cmd '.checks[]|select(.property_id==$id)|.[$t]' MANIFEST.json)
  ev=$(jq -r --arg id $id '.checks[]|select(.property_id==$id)|.evidence_file' MANIFEST.json)
  rm -f "$ev"
  bash -c "$cmd" > "$OUT/$id.log" 2>&1; e=$?
  st=ok
  [ $e -ne 0 ] && st="EXIT=$e"
  grep -q '^VIOLATION' "$OUT/$id.log" && st="$st VIOLATION"
  [ -s "$ev" ] || st="$st NO-EVIDENCE"
  [ "$st" != ok ] && rc=1
  echo "$id $st: $(tail -n 1 "$OUT/$id.log" | cut -c1-200)"
done
exit $rc
